#!/bin/bash
# run_harmless.sh : apply the twelve behaviour-preserving refactorings of harmless/ (all together) to a scratch worktree of /repo's
# HEAD and run every quick check on it: every check must exit 0 (no alarm, no checker problem).  Writes harmless/RESULTS.txt.
cd /verif
W=$(mktemp -d /tmp/harmless_trial.XXXXXX)
git -C /repo worktree add --detach "$W/wt" HEAD >/dev/null 2>&1
git -C "$W/wt" apply /verif/harmless/all_combined.diff || { echo APPLY-FAILED; git -C /repo worktree remove --force "$W/wt"; rm -rf "$W"; exit 9; }
: > harmless/RESULTS.txt
for p in C01 C02 C03 C04 C05 C06 C07 C08 C09 C10 C11 C13 C14 C15 C16 C17 C18 C19 C20; do
  OASVERIF_REPO="$W/wt" OASVERIF_REPLAY_DIR="$W/replays" ./check $p --no-evidence > "$W/$p.log" 2>&1; code=$?
  echo "$p exit=$code $(grep '^property=' "$W/$p.log" | cut -c1-160)" | tee -a harmless/RESULTS.txt
done
git -C /repo worktree remove --force "$W/wt"; rm -rf "$W"
