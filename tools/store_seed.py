#!/usr/bin/env python3
"""store_seed.py <prop> <n> [patchfile] (env SEEDROOT, SRCN: source directory number if different from n): copy a confirmed seeded change into /verif/seeded/<prop>_<n>/"""
import json, os, shutil, sys
prop, n = sys.argv[1], sys.argv[2]
src = "%s/%s/out/%s" % (os.environ.get("SEEDROOT", "/tmp/seed"), prop, os.environ.get("SRCN", n))
patch = sys.argv[3] if len(sys.argv) > 3 else os.path.join(src, "patch.diff")
res = open("/tmp/confirm/%s_%s.result" % (prop, n)).read()
assert "demo_without=0" in res and "demo_with=1" in res and "174 passed" in res and "apply=ok" in res, res
dst = "/verif/seeded/%s_%s" % (prop, n)
os.makedirs(dst, exist_ok=True)
shutil.copy(patch, os.path.join(dst, "patch.diff"))
shutil.copy(os.path.join(src, "demo.py"), os.path.join(dst, "demo.py"))
meta = json.load(open(os.path.join(src, "meta.json")))
failed = [l for l in res.splitlines() if l.startswith("FAILED")]
meta_out = dict(
    property=prop,
    summary=meta.get("summary"),
    needs=meta.get("needs"),
    files=meta.get("files"),
    author="independent sub-agent given only the property text and a scratch worktree",
    confirmed=dict(
        how="tools/confirm_seed.sh: scratch worktree of /repo HEAD; demo without the patch, git apply, demo with the patch, full test suite",
        demo_without_change=0, demo_with_change=1,
        test_suite_with_change=[l for l in res.splitlines() if "passed" in l][0].strip(),
        failing_tests_with_change=failed,
        note="the three failing tests are the ones that already fail on the unchanged tree (BASELINE always_fail)"),
    rebased=len(sys.argv) > 3,
)
json.dump(meta_out, open(os.path.join(dst, "meta.json"), "w"), indent=1)
print("stored", dst)
