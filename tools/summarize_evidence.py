#!/usr/bin/env python3
"""summarize_evidence.py : one markdown row per evidence file (jobs, obligations, wall time, functions under contract, known
findings hit, largest worker), for DESIGN.md section C."""
import glob
import json
import os
HERE = os.path.dirname(os.path.dirname(os.path.abspath(__file__)))
print("| id | tier | jobs | obligations (= discharged) | wall s | functions under contract | known findings hit | peak worker MB |")
print("|---|---|---|---|---|---|---|---|")
for f in sorted(glob.glob(os.path.join(HERE, "evidence", "C*.json"))):
    e = json.load(open(f))
    c = e["coverage"]
    rss = max([j.get("worker_maxrss_mb") or 0 for j in c.get("per_job", [])] or [0])
    assert c["obligations"] == c["discharged"], f
    print("| %s | %s | %d | %d | %.0f | %d | %s | %s |" % (e["property_id"], e["tier"], c["jobs"], c["obligations"], e["wall_s"],
          len(c["functions_under_contract"]), ", ".join(c.get("known_findings_hit") or []) or "–", rss or "–"))
