#!/bin/bash
# confirm_seed.sh <prop> <n> [<id>]: confirm a seeded change from ${SEEDROOT:-/tmp/seed}/<prop>/out/<n> in a scratch worktree of /repo HEAD
# (<id> is the number it will be stored under, default <n>)
# writes /tmp/confirm/<prop>_<n>.result
P=$1; M=$2; N=${3:-$2}
SRC=${SEEDROOT:-/tmp/seed}/$P/out/$M
W=/tmp/confirm/wt_${P}_$N
R=/tmp/confirm/${P}_$N.result
mkdir -p /tmp/confirm
rm -f $R
git -C /repo worktree remove --force $W >/dev/null 2>&1
git -C /repo worktree add --detach $W HEAD >/dev/null 2>&1 || { echo "worktree failed" > $R; exit 1; }
cd $W
export OPENMDAO_REPORTS=0
export PYTHONPATH=$W
echo "prop=$P n=$N" >> $R
timeout 600 /venv/bin/python $SRC/demo.py > /tmp/confirm/${P}_$N.demo_without.log 2>&1; echo "demo_without=$?" >> $R
if git apply --check ${PATCHFILE:-$SRC/patch.diff} 2>/dev/null; then
  git apply ${PATCHFILE:-$SRC/patch.diff}; echo "apply=ok" >> $R
else
  echo "apply=conflict" >> $R; cd /; git -C /repo worktree remove --force $W; exit 0
fi
/venv/bin/python -c "import openaerostruct, sys; print(openaerostruct.__file__)" >> $R 2>&1
timeout 600 /venv/bin/python $SRC/demo.py > /tmp/confirm/${P}_$N.demo_with.log 2>&1; echo "demo_with=$?" >> $R
timeout 3000 /venv/bin/python -m pytest -q -p no:cacheprovider --timeout=900 tests > /tmp/confirm/${P}_$N.tests.log 2>&1
tail -1 /tmp/confirm/${P}_$N.tests.log >> $R
grep "^FAILED" /tmp/confirm/${P}_$N.tests.log | sort >> $R
cd /
git -C /repo worktree remove --force $W
echo done >> $R
