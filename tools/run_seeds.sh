#!/bin/bash
# run_seeds.sh [pattern]: apply every stored seeded change to /repo, run the quick check of the property it breaks,
# undo it, and record whether the check reported a violation.  Writes seeded/RESULTS.tsv
cd /verif
OUT=seeded/RESULTS.tsv
: > $OUT
for d in seeded/${1:-C*}; do
  [ -f $d/patch.diff ] || continue
  id=$(basename $d); prop=${id%_*}
  if [ -n "$(git -C /repo status --porcelain --untracked-files=no)" ]; then echo "repo dirty"; exit 9; fi
  git -C /repo apply /verif/$d/patch.diff || { echo -e "$id\t$prop\tAPPLY-FAILED" >> $OUT; continue; }
  ./check $prop --no-evidence > /tmp/seedrun_$id.log 2>&1; code=$?
  git -C /repo checkout -- .
  nviol=$(grep -c "^VIOLATION" /tmp/seedrun_$id.log)
  nconf=$(grep "^VIOLATION" /tmp/seedrun_$id.log | grep -vc "no-failing-input-found")
  first=$(grep "^VIOLATION" /tmp/seedrun_$id.log | head -1 | sed 's/.*replay=replays\/[A-Z0-9]*\///' | cut -c1-110)
  echo -e "$id\t$prop\texit=$code\tviolations=$nviol\tnatively_confirmed=$nconf\t$first" >> $OUT
  echo "$id exit=$code violations=$nviol confirmed=$nconf"
done
rm -rf replays
