#!/bin/bash
# run_seeds.sh [pattern] : try every stored seeded change (seeded/<id>/patch.diff) on a scratch worktree of /repo's HEAD with
# the quick check of the property it breaks, and record whether the check reported a violation.  /repo is not touched.
# Writes seeded/RESULTS.tsv (sorted).  PAR=<n> trials at once (default 3).
cd /verif
one() {
  d=$1; id=$(basename $d); prop=${id%_*}
  W=$(mktemp -d /tmp/trial.XXXXXX)
  git -C /repo worktree add --detach "$W/wt" HEAD >/dev/null 2>&1
  if ! git -C "$W/wt" apply /verif/$d/patch.diff 2>/dev/null; then
    echo -e "$id\t$prop\tAPPLY-FAILED"; git -C /repo worktree remove --force "$W/wt"; rm -rf "$W"; return
  fi
  OASVERIF_REPO="$W/wt" OASVERIF_REPLAY_DIR="$W/replays" ./check $prop --no-evidence > "$W/log" 2>&1; code=$?
  nviol=$(grep -c "^VIOLATION" "$W/log")
  nconf=$(grep "^VIOLATION" "$W/log" | grep -vc "no-failing-input-found")
  first=$(grep "^VIOLATION" "$W/log" | head -1 | sed 's/.*replay=[^ ]*replays\/[A-Z0-9]*\///' | cut -c1-110)
  echo -e "$id\t$prop\texit=$code\tviolations=$nviol\tnatively_confirmed=$nconf\t$first"
  git -C /repo worktree remove --force "$W/wt"; rm -rf "$W"
}
export -f one
ls -d seeded/${1:-C*} | while read d; do [ -f $d/patch.diff ] && echo $d; done | xargs -P ${PAR:-3} -I{} bash -c 'one {}' | tee /dev/stderr | sort > seeded/RESULTS.tsv.new
mv seeded/RESULTS.tsv.new seeded/RESULTS.tsv
