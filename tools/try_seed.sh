#!/bin/bash
# try_seed.sh <patch.diff> <prop> [check args...] : apply a seeded change to /repo, run ./check <prop>, undo
PATCH=$1; shift
cd /repo || exit 9
if [ -n "$(git status --porcelain --untracked-files=no)" ]; then echo "repo dirty"; exit 9; fi
git apply "$PATCH" || { echo "APPLY FAILED"; exit 9; }
cd /verif
./check "$@" --no-evidence 2>&1 | grep -E "^VIOLATION|^property=|^CHECKER|^UNDECIDED|^KNOWN" | cut -c1-250 | head -${SEED_LINES:-8}
git -C /repo checkout -- .
