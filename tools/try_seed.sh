#!/bin/bash
# try_seed.sh <patch.diff> <prop> [check args...] : apply a stored change to a scratch worktree of /repo's HEAD (outside /repo and
# /verif), run ./check <prop> on that tree, remove the worktree.  /repo itself is not touched, so several trials can run at once.
PATCH=$(realpath "$1"); shift
W=$(mktemp -d /tmp/trial.XXXXXX)
git -C /repo worktree add --detach "$W/wt" HEAD >/dev/null 2>&1 || { echo "WORKTREE FAILED"; rm -rf "$W"; exit 9; }
git -C "$W/wt" apply "$PATCH" || { echo "APPLY FAILED"; git -C /repo worktree remove --force "$W/wt"; rm -rf "$W"; exit 9; }
cd /verif
OASVERIF_REPO="$W/wt" OASVERIF_REPLAY_DIR="$W/replays" ./check "$@" --no-evidence 2>&1 | grep -E "^VIOLATION|^property=|^CHECKER|^UNDECIDED|^KNOWN" | cut -c1-250 | head -${SEED_LINES:-8}
git -C /repo worktree remove --force "$W/wt"; rm -rf "$W"
