#!/bin/bash
# Build the overlay venv used by every check: python 3.12 (same as /venv) + z3-solver, cvc5, jsonschema from the
# offline wheelhouse, with /venv's site-packages (openmdao, numpy, scipy, mphys) appended through a .pth file.
set -e
cd "$(dirname "$0")"
V=.venv
if [ ! -x $V/bin/python ] || ! $V/bin/python -c "import z3, numpy, openmdao, jsonschema" 2>/dev/null; then
  rm -rf $V
  /venv/bin/python -m venv $V
  PIP_NO_INDEX=1 $V/bin/pip install -q --no-index --find-links /opt/veriftools/wheels z3-solver cvc5 jsonschema sympy >/dev/null
  echo "import site; site.addsitedir('/venv/lib/python3.12/site-packages')" > $V/lib/python3.12/site-packages/zz_base.pth
fi
$V/bin/python -c "import z3, cvc5, numpy, openmdao, jsonschema; print('setup ok', z3.get_version_string(), numpy.__version__, openmdao.__version__)"
