"""./check <property> [--tier quick|thorough] [--replay file] [--jobs pattern]"""
import argparse
import fnmatch
import json
import os
import sys
import time

from . import runner

HERE = runner.HERE

TRUSTED_BASE = [
    "IEEE-754 arithmetic treated as exact real arithmetic; float literals denote their decimal repr; pi symbolic",
    "numpy's own execution of structural operations on dtype=object arrays",
    "the lifted shim functions of oasverif/npshim.py (cross-checked numerically against the native run on every job)",
    "dense model of the used scipy.sparse subset (oasverif/spshim.py); lu_factor/lu_solve/splu contracts assumed",
    "OpenMDAO: containers, transfers, unit conversion, chain rule, solvers, cs/fd approximation, SplineComp",
    "the term engine (oasverif/term.py): polynomial arithmetic, rewrite rules, eight differentiation rules",
    "array shapes are concrete per proof: every result is per enumerated configuration (bounded grid), unbounded "
    "over real input values",
]


def load_known():
    p = os.path.join(HERE, "KNOWN_FINDINGS.json")
    if not os.path.exists(p):
        return []
    return json.load(open(p)).get("findings", [])


def _glob(text, pattern):
    """'*' is the only wildcard (job and obligation names contain brackets, which fnmatch would read as classes)"""
    parts = pattern.split("*")
    if len(parts) == 1:
        return text == pattern
    if not text.startswith(parts[0]):
        return False
    pos = len(parts[0])
    for p in parts[1:-1]:
        i = text.find(p, pos)
        if i < 0:
            return False
        pos = i + len(p)
    return text.endswith(parts[-1]) and len(text) - len(parts[-1]) >= pos


def match_known(known, prop, job, name):
    for k in known:
        if k.get("status", "known") != "known":
            continue
        if prop not in k["property"].split(","):
            continue
        if _glob(job, k["job"]) and _glob(name, k["obligation"]):
            return k
    return None


def main(argv=None):
    ap = argparse.ArgumentParser()
    ap.add_argument("prop")
    ap.add_argument("--tier", default=os.environ.get("VERIF_TIER", "quick"))
    ap.add_argument("--replay")
    ap.add_argument("--jobs", default=None, help="fnmatch pattern restricting job names (debugging)")
    ap.add_argument("--procs", type=int, default=None)
    ap.add_argument("--no-evidence", action="store_true")
    args = ap.parse_args(argv)
    prop = args.prop
    tier = args.tier if args.tier in ("quick", "thorough") else "quick"
    seed = int(os.environ.get("VERIF_SEED", "0") or 0)
    os.environ["OASVERIF_TIER"] = tier
    t0 = time.time()
    from . import sx
    sx.assert_repo()
    runner.load_contracts()
    if args.replay:
        from . import replay
        return replay.main(prop, args.replay, seed)
    tasks = runner.select(prop, tier)
    if args.jobs:
        tasks = [(n, c) for n, c in tasks if fnmatch.fnmatchcase(n, args.jobs)]
    if not tasks:
        print("CHECKER-PROBLEM property=%s no contract instantiates any job (vacuous)" % prop)
        return 3
    results = runner.run_jobs(tasks, seed, (prop,), args.procs)
    known = load_known()
    n_obl = n_ok = 0
    known_entries = 0
    violations = []
    known_hits = {}
    undecided = []
    errors = []
    functions = set()
    assumptions = set()
    notes = []
    samples = []
    per_job = []
    solver_secs = 0.0
    xc_checked = 0
    xc_worst = 0.0
    kinds = {}
    z3tot = {}
    iv_boxes = 0
    for r in sorted(results, key=lambda r: r["job"]):
        iv_boxes += r.get("iv_boxes", 0) or 0
        if r["error"]:
            errors.append((r["job"], r["error"], r.get("trace", "")))
            continue
        xc = r.get("crosscheck") or {}
        if xc and not xc.get("ok", True):
            errors.append((r["job"], "cross-check: %s" % xc.get("error"), ""))
        for kz, vz in (r.get("z3") or {}).items():
            z3tot[kz] = z3tot.get(kz, 0) + vz
        xc_checked += xc.get("checked", 0)
        xc_worst = max(xc_worst, xc.get("worst_rel_err", 0.0))
        functions.update(r["functions"])
        assumptions.update(r.get("assumptions", []))
        notes.extend("%s: %s" % (r["job"], n) for n in r["notes"])
        jo = jn = 0
        for o in r["obls"]:
            if prop not in o["prop"].split(","):
                continue
            nn = o["n"]
            if o["refuted"] and match_known(known, prop, r["job"], o["name"]) is not None:
                # entries refuted under a listed known finding are reported separately, not as obligations of the proof
                nn = o["n"] - len(o["refuted"])
                known_entries += len(o["refuted"])
            n_obl += nn
            jn += nn
            solver_secs += o["secs"]
            kinds[o["kind"]] = kinds.get(o["kind"], 0) + o["n"]
            bad = len(o["refuted"]) + len(o["undecided"])
            if o["refuted"]:
                k = match_known(known, prop, r["job"], o["name"])
                if k is not None:
                    known_hits.setdefault(k["id"], []).append((r["job"], o["name"], len(o["refuted"])))
                else:
                    violations.append((r["job"], r["jobname"], r["cfg"], o))
            elif o["undecided"]:
                undecided.append((r["job"], o))
            n_ok += o["ok"]
            jo += o["ok"]
            if o["sample"] and len(samples) < 12 and o["ok"]:
                samples.append(dict(job=r["job"], obligation=o["name"], entries=o["n"], example=o["sample"][:400]))
        per_job.append(dict(job=r["job"], obligations=jn, discharged=jo, secs=r["secs"], atoms=r.get("atoms"),
                            definedness_conditions=r.get("defined"), worker_maxrss_mb=r.get("maxrss_mb")))
    vacuous = n_obl == 0
    # ------------------------------------------------------------ report
    code = 0
    out_lines = []
    for kid, hits in sorted(known_hits.items()):
        k = [x for x in known if x["id"] == kid][0]
        out_lines.append("KNOWN-FINDING: property=%s %s (%d obligation groups, e.g. %s :: %s)" % (
            prop, k["what"], len(hits), hits[0][0], hits[0][1]))
    replay_dir = os.path.join(os.environ.get("OASVERIF_REPLAY_DIR") or os.path.join(HERE, "replays"), prop)
    if violations:
        os.makedirs(replay_dir, exist_ok=True)
    for job, jobname, cfg, o in violations:
        confirmed = [x for x in o["refuted"] if x.get("confirmed")]
        fn = "%s__%s.json" % (_slug(job), _slug(o["name"]))
        path = os.path.join(replay_dir, fn)
        json.dump(dict(property=prop, job=job, jobname=jobname, cfg=_jsonable(cfg), obligation=o["name"], kind=o["kind"],
                       entries=o["n"], failing=o["refuted"][:5], n_failing=len(o["refuted"]), path=o["path"],
                       verifier_output="ring normaliser: non-zero normal form of lhs-rhs; numerical witness found",
                       confirmed_natively=bool(confirmed)), open(path, "w"), indent=1, default=str)
        tail = "" if confirmed else " no-failing-input-found"
        out_lines.append("VIOLATION property=%s replay=%s%s" % (prop, os.path.relpath(path, HERE), tail))
        code = 1
    if code == 0 and errors:
        code = 3
    if code == 0 and vacuous:
        code = 3
    if code == 0 and undecided:
        code = 2
    for job, err, tr in errors[:20]:
        out_lines.append("CHECKER-PROBLEM property=%s job=%s %s" % (prop, job, err))
    for job, o in undecided[:20]:
        out_lines.append("UNDECIDED property=%s job=%s obligation=%s (%d entries): %s" % (
            prop, job, o["name"], len(o["undecided"]), o["undecided"][0].get("reason")))
    wall = time.time() - t0
    out_lines.append("property=%s tier=%s jobs=%d obligations=%d discharged=%d violations=%d known=%d undecided=%d "
                     "errors=%d wall=%.1fs exit=%d" % (prop, tier, len(results), n_obl, n_ok, len(violations),
                                                        len(known_hits), len(undecided), len(errors), wall, code))
    print("\n".join(out_lines))
    if errors and os.environ.get("OASVERIF_TRACE"):
        for job, err, tr in errors[:5]:
            print(job, tr)
    if not args.no_evidence:
        ev = dict(
            property_id=prop, tier=tier, seed=seed, level="proof", wall_s=round(wall, 2),
            violations=len(violations),
            coverage=dict(
                obligations=n_obl, discharged=n_ok,
                checker_cmd="./check %s --tier %s" % (prop, tier),
                trusted_base=TRUSTED_BASE,
                back_ends=dict(ring_normaliser_and_evaluation=n_ok, z3_second_opinion_on_a_seeded_sample=dict(
                    confirmed_unsat=z3tot.get("unsat", 0), unknown_or_timeout=z3tot.get("unknown", 0), disagreements=z3tot.get("sat", 0),
                    outside_exported_fragment=z3tot.get("skipped", 0), seconds=round(z3tot.get("secs", 0.0), 2)),
                    interval_branch_and_bound_boxes=iv_boxes, z3_sign_and_ast_vcs="see obligation_kinds: sign / concrete"),
                obligation_kinds=kinds,
                solver_seconds=round(solver_secs, 2),
                jobs=len(results),
                functions_under_contract=sorted(functions),
                configurations=[p["job"] for p in per_job][:400],
                per_job=per_job[:400],
                bounded_by="array shapes / option switches enumerated per job (see configurations); proofs are for all real "
                           "input values at each enumerated configuration",
                shim_crosscheck=dict(components_checked=xc_checked, worst_relative_error=xc_worst),
                known_findings_hit=sorted(known_hits),
                obligations_refuted_under_known_findings=known_entries,
                undecided=[dict(job=j, obligation=o["name"], entries=len(o["undecided"])) for j, o in undecided][:50],
                checker_problems=[dict(job=j, error=e) for j, e, _ in errors][:50],
                samples=samples or [dict(note="no discharged obligation with a printable sample")],
                notes=notes[:100],
            ),
            assumptions=sorted(assumptions) + TRUSTED_BASE,
        )
        os.makedirs(os.path.join(HERE, "evidence"), exist_ok=True)
        json.dump(ev, open(os.path.join(HERE, "evidence", "%s.json" % prop), "w"), indent=1, default=str)
    return code


def _slug(s):
    out = "".join(ch if ch.isalnum() or ch in "-_." else "_" for ch in s)
    return out[:120]


def _jsonable(x):
    try:
        json.dumps(x)
        return x
    except TypeError:
        return repr(x)


if __name__ == "__main__":
    sys.exit(main())
