"""C10: structural displacements satisfy beam equilibrium with a clamped root (specs: textbook space-frame element,
direct-stiffness assembly, closed-form cantilever)."""
import numpy as np
from ..runner import job
from .. import core, gsx, term as S, spshim
from ..surfaces import surface
from .c01_components import cls, T, POS, NODES
from .c06 import RG
from ._generic import implicit_contract

R10 = tuple(POS) + tuple(NODES) + ((r"^l\[", 0.7, 1.3), (r"^F|^M", 0.5, 2.0), (r"local_stiff", 0.5, 2.0), (r"forces", 1.0, 3.0), (r"chord|^c$", 0.5, 1.5))


def frame_element_local(env, E, G, A, Iy, Iz, J, L):
    """textbook 12x12 Euler-Bernoulli space-frame element in local axes, DOF order (u, v, w, tx, ty, tz) per node:
    axial EA/L, torsion GJ/L, bending in the local x-y plane with EIz, in the local x-z plane with EIy"""
    K = np.empty((12, 12), dtype=object if env.sym else float)
    K[...] = 0 * L
    def put(i, j, v):
        K[i, j] = v
        K[j, i] = v
    ea, gj = E * A / L, G * J / L
    put(0, 0, ea); put(0, 6, -ea); put(6, 6, ea)
    put(3, 3, gj); put(3, 9, -gj); put(9, 9, gj)
    z = E * Iz
    put(1, 1, 12 * z / L ** 3); put(1, 5, 6 * z / L ** 2); put(1, 7, -12 * z / L ** 3); put(1, 11, 6 * z / L ** 2)
    put(5, 5, 4 * z / L); put(5, 7, -6 * z / L ** 2); put(5, 11, 2 * z / L)
    put(7, 7, 12 * z / L ** 3); put(7, 11, -6 * z / L ** 2); put(11, 11, 4 * z / L)
    y = E * Iy
    put(2, 2, 12 * y / L ** 3); put(2, 4, -6 * y / L ** 2); put(2, 8, -12 * y / L ** 3); put(2, 10, -6 * y / L ** 2)
    put(4, 4, 4 * y / L); put(4, 8, 6 * y / L ** 2); put(4, 10, 2 * y / L)
    put(8, 8, 12 * y / L ** 3); put(8, 10, 6 * y / L ** 2); put(10, 10, 4 * y / L)
    return K


def local_axes(env, P0, P1):
    """documented local axes: e1 along the element, e2 = unit(e1 x e_x) (perpendicular to the global x axis), e3 = e1 x e2"""
    xp = env.xp
    d = P1 - P0
    L = xp.sqrt((d * d).sum())
    e1 = d / L
    ex = np.array([1, 0, 0])
    c = xp.cross(e1, ex)
    e2 = c / xp.sqrt((c * c).sum())
    e3 = xp.cross(e1, e2)
    return L, np.array([e1, e2, e3], dtype=object if env.sym else float)


def matmul(env, A, B):
    if env.sym:
        return spshim._mm(S.lift(np.asarray(A, dtype=object)), S.lift(np.asarray(B, dtype=object)))
    return np.asarray(A, dtype=float).dot(np.asarray(B, dtype=float))


@job("c10.element", ("C10", "C02"), cfgs=[dict(ny=2), dict(ny=2, via="setup", model="wingbox"), dict(ny=2, via="setup", model="tube", _tier=T),
                                          dict(ny=3, _tier=T)], ranges=R10, cost=60)
def element(env, ny, via="assemble", model="tube"):
    """the real AssembleKGroup (Transform, Length, LocalStiff, LocalStiffPermuted, LocalStiffTransformed wired by OpenMDAO)
    produces, for every element, T^T K_local T of the textbook frame element with the documented local axes and the
    elastic constants E, G of the surface dictionary; via="setup": reached through the real SpatialBeamSetup group (mesh ->
    nodes -> stiffness) for the tube and the wingbox model"""
    s = surface(name="wing", nx=2, ny=ny, symmetry=True, side="left", model=model)
    if via == "setup":
        g = gsx.GroupSX(env, lambda m: m.add_subsystem("k", cls("structures.spatial_beam_setup.SpatialBeamSetup")(surface=s), promotes=["*"]))
    else:
        g = gsx.GroupSX(env, lambda m: m.add_subsystem("k", cls("structures.assemble_k_group.AssembleKGroup")(surface=s), promotes=["*"]))
    given = {p: env.var(p, g.free_shape(p)) for p in g.prom_inputs()}
    for path, vals in env.explore(lambda: g.run(given)):
        tag = (" @path(%s)" % ";".join("%s=%s" % (repr(c)[:50], "T" if bb else "F") for c, bb in path)) if path else ""
        klt = g.get(vals, "local_stiff_transformed")
        tr = g.get(vals, "k.assembly.transform.transform" if via == "setup" else "transform")
        nodes = g.get(vals, "nodes") if via == "setup" else given["nodes"]
        for e in range(ny - 1):
            L, Rm = local_axes(env, nodes[e], nodes[e + 1])
            RRt = matmul(env, Rm, Rm.T)
            env.eq("C10", "local axes are orthonormal [element %d]" % e + tag, RRt, np.eye(3))
            env.eq("C10", "Transform: the 3x3 block of the real component is the documented direction-cosine matrix [element %d]" % e + tag, tr[e][:3, :3], Rm)
            Tm = np.empty((12, 12), dtype=object if env.sym else float)
            Tm[...] = 0 * L
            for k in range(4):
                Tm[3 * k:3 * k + 3, 3 * k:3 * k + 3] = Rm
            env.eq("C10", "Transform: block diagonal with four copies of the direction-cosine matrix [element %d]" % e + tag, tr[e], Tm)
            Kl = frame_element_local(env, s["E"], s["G"], given["A"][e], given["Iy"][e], given["Iz"][e], given["J"][e], L)
            Kg = matmul(env, matmul(env, Tm.T, Kl), Tm)
            env.eq("C10", "element stiffness in global axes == T^T K_local T of the textbook Euler-Bernoulli frame element [element %d]" % e + tag, klt[e], Kg)
            env.eq("C10,C02", "element stiffness in global axes is symmetric [element %d]" % e + tag, klt[e], klt[e].T)
        el = g.get(vals, "k.assembly.length.element_lengths" if via == "setup" else "element_lengths")
        d = nodes[1:] - nodes[:-1]
        env.eq("C10", "element lengths == distance between consecutive nodes" + tag, el * el, (d * d).sum(axis=1))


@job("c10.assembly", ("C10", "C02"), cfgs=[dict(ny=2, symmetry=True, yshift=0.0), dict(ny=3, symmetry=False, yshift=0.0), dict(ny=3, symmetry=False, yshift=2.5),
                                            dict(ny=3, symmetry=True, yshift=0.0, side="right"),        # right half: the symmetry-plane node is the first one
                                            dict(ny=4, symmetry=True, yshift=0.0, _tier=T), dict(ny=5, symmetry=False, yshift=-1.0, _tier=T)], ranges=R10, cost=10)
def assembly(env, ny, symmetry, yshift, side="left"):
    """FEM residual == (direct-stiffness assembly of the element matrices + Lagrange rows clamping the root node) u - f;
    the clamped node is the symmetry-plane node (half span) / the wing centre node (full span) wherever the wing sits;
    solve_nonlinear after a visit to another point and a residual evaluation still solves the current system"""
    s = surface(name="wing", nx=2, ny=ny, symmetry=symmetry, side=side, yshift=yshift)
    h = env.comp("fem", lambda: cls("structures.fem.FEM")(surface=s))
    ins = h.inputs()
    u = env.var("u", h.shape["disp_aug"])
    res = h.residual(ins, dict(disp_aug=u))["disp_aug"]
    k = ins["local_stiff_transformed"]
    n = 6 * ny + 6
    K = np.empty((n, n), dtype=object if env.sym else float)
    K[...] = 0 * u[0]
    for e in range(ny - 1):
        K[6 * e:6 * e + 12, 6 * e:6 * e + 12] = K[6 * e:6 * e + 12, 6 * e:6 * e + 12] + k[e]
    root = (ny - 1 if side == "left" else 0) if symmetry else (ny - 1) // 2
    for d in range(6):
        K[6 * root + d, 6 * ny + d] = K[6 * root + d, 6 * ny + d] + 10 ** 9
        K[6 * ny + d, 6 * root + d] = K[6 * ny + d, 6 * root + d] + 10 ** 9
    want = matmul(env, K, u) - np.asarray(ins["forces"]).reshape(-1)
    env.eq("C10", "FEM residual == (assembled frame stiffness with the root node clamped by Lagrange rows) u - f", res, want)
    if symmetry and side == "right":
        return                          # (the history clause below is stated for the configurations whose clamp is the documented one)
    if env.sym:
        # history: solve at another point, evaluate the residual at the current point, solve at the current point
        insP = h.inputs(tag="P.")
        h.solve_nonlinear(insP)
        h.residual(ins, dict(disp_aug=u))
        del spshim.SOLVES[:]
        x = h.solve_nonlinear(ins)["disp_aug"]
        ok = len(spshim.SOLVES) == 1
        env.holds("C10,C03", "solve_nonlinear after visiting another point performs one solve", ok, "%d solves" % len(spshim.SOLVES))
        if ok:
            rec = spshim.SOLVES[0]
            env.eq("C10,C03", "solve_nonlinear after visiting another point and a residual evaluation solves the current system (no stale factorisation)",
                   rec["A"], S.lift(K))
            env.eq("C10,C03", "... with the current right-hand side", np.asarray(rec["b"], dtype=object).reshape(-1), np.asarray(ins["forces"], dtype=object).reshape(-1))
    else:
        insP = h.inputs(tag="P.")
        h.solve_nonlinear(insP)
        h.residual(ins, dict(disp_aug=u))
        x = h.solve_nonlinear(ins)["disp_aug"]
        xs = np.linalg.solve(np.asarray(K, dtype=float), np.asarray(ins["forces"], dtype=float).reshape(-1))
        env.eq("C10,C03", "solve_nonlinear after visiting another point and a residual evaluation solves the current system (no stale factorisation)",
               np.asarray(x, dtype=float).reshape(-1)[:6 * ny], xs[:6 * ny])


@job("c10.cantilever", ("C10",), cfgs=[dict(ny=2), dict(ny=3)], ranges=R10, cost=60)
def cantilever(env, ny):
    """straight cantilever along y with a tube section (Iy = Iz = I), clamped at the symmetry plane, tip force and tip
    moment: the closed-form beam solution satisfies the equilibrium rows of the real FEM chain exactly at every node
    (nodes from the real ComputeNodes, stiffness from the real AssembleKGroup, right-hand side from CreateRHS)"""
    xp = env.xp
    s = surface(name="wing", nx=2, ny=ny, symmetry=True, side="left")
    g = gsx.GroupSX(env, gsx.struct_model(s), key="S")
    # documented exemption only: the mask |load| < 1e-6 N (constant threshold); any other masking of the loads is not exempt
    env.indicator_branch = 0
    env.indicator_only = core.tiny_load_mask
    env.add_ranges((r"^F|^M", 1e-3, 1e6, "log"))          # loads spread over many decades, all well above 1e-6 N
    w = s["fem_origin"]
    c = env.var("c", ())
    l = env.var("l", (ny - 1,))
    ys = [0 * c]
    for j in range(ny - 1):
        ys.insert(0, ys[0] - l[ny - 2 - j] * l[ny - 2 - j])             # tip first, root (y = 0) last
    mesh = np.empty((2, ny, 3), dtype=object if env.sym else float)
    for j in range(ny):
        mesh[0, j] = [-w * c, ys[j], 0 * c]
        mesh[1, j] = [(1 - w) * c, ys[j], 0 * c]
    A = env.var("A", ())
    I = env.var("I", ())
    J = env.var("J", ())
    F = env.var("F", (3,))
    M = env.var("M", (3,))
    loads = np.empty((ny, 6), dtype=object if env.sym else float)
    loads[...] = 0 * c
    loads[0, :3] = F
    loads[0, 3:] = M
    one = np.ones(ny - 1)
    given = dict(mesh=mesh, A=A * one, Iy=I * one, Iz=I * one, J=J * one, radius=env.var("radius", (ny - 1,)), thickness=env.var("thickness", (ny - 1,)), loads=loads)
    E, G = s["E"], s["G"]
    Ltot = -ys[0]
    a = np.array([0, -1, 0])                                   # axis from the root to the tip
    Fa, Ma = (F * a).sum(), (M * a).sum()
    Fp, Mp = F - Fa * a, M - Ma * a

    def closed_form(sdist):
        """displacement and rotation at distance sdist from the clamped root for a load (F, M) at the free end"""
        uu = Fa * sdist / (E * A) * a + Fp * (sdist ** 2 * (3 * Ltot - sdist) / (6 * E * I)) + xp.cross(Mp, a) * (sdist ** 2 / (2 * E * I))
        th = Ma * sdist / (G * J) * a + Mp * (sdist / (E * I)) + xp.cross(a, Fp) * (sdist * (2 * Ltot - sdist) / (2 * E * I))
        return np.concatenate([uu, th])
    if env.sym:
        def hint(rec):
            lam = env.var("lam", (6,))
            rows = [closed_form(-ys[j]) for j in range(ny)]
            return np.concatenate([np.concatenate(rows), lam])

        def run():
            g.run(given, hints={"fem": hint})
            return g.solves[0]["residual_at_phi"]
        for path, r in env.explore(run):
            tag = " @path(%d decisions)" % len(path) if path else ""
            free = r[:6 * (ny - 1)]
            env.eq("C10", "closed-form cantilever displacements satisfy the equilibrium rows of every free node exactly (nodal exactness)" + tag, free, 0 * free)
            env.eq("C10", "closed-form displacement vanishes at the clamped root (constraint rows)" + tag, r[6 * ny:], 0 * r[6 * ny:])
        env.assumptions.add("non-singular clamped stiffness matrix (uniqueness of the displacements)")
    else:
        vals = g.run(given)
        disp = np.asarray(g.get(vals, "disp"), dtype=float)
        cf = np.array([np.asarray(closed_form(-ys[j]), dtype=float) for j in range(ny)])
        # compared in units of the largest closed-form displacement so that every component counts
        sc = max(np.abs(cf).max(), 1e-300)
        env.eq("C10", "closed-form cantilever displacements satisfy the equilibrium rows of every free node exactly (nodal exactness)",
               disp[:ny] / sc * 1e3, cf / sc * 1e3)


def cayley(env, q):
    """rotation matrix of the Gibbs vector q = tan(theta/2) n: every rotation except half turns, rational in q"""
    qq = (q * q).sum()
    Kx = np.array([[0 * q[0], -q[2], q[1]], [q[2], 0 * q[0], -q[0]], [-q[1], q[0], 0 * q[0]]], dtype=object if env.sym else float)
    qqT = np.array([[q[i] * q[j] for j in range(3)] for i in range(3)], dtype=object if env.sym else float)
    return ((1 - qq) * np.eye(3) + 2 * qqT + 2 * Kx) / (1 + qq)


def blockrot(env, R, n):
    T = np.empty((3 * n, 3 * n), dtype=object if env.sym else float)
    T[...] = 0 * R[0, 0]
    for k in range(n):
        T[3 * k:3 * k + 3, 3 * k:3 * k + 3] = R
    return T


@job("c10.rotation", ("C10",), cfgs=[dict(ny=2, gibbs=((1, 2), (1, 3), (-1, 5))), dict(ny=2, gibbs=((-2, 3), (1, 7), (3, 4)), _tier=T),
                                      dict(ny=3, gibbs=((1, 2), (1, 3), (-1, 5)), _tier=T)],
     ranges=R10 + ((r"^disp|^u\[", -0.2, 0.2),), cost=80)
def rotation(env, ny, gibbs):
    """tube model (Iy = Iz): rotating structure and loads together rotates the response - for all structures, section
    properties, loads and responses at generic exact rotations R (Cayley matrix of a rational Gibbs vector, one per
    configuration).  Modular chain over the real components: nodes(R mesh) = R nodes(mesh); element stiffness of the real
    AssembleKGroup at rotated nodes = T K T^T with T = diag(R, R, R, R); right-hand side of rotated loads = rotated
    right-hand side; the real FEM residual at (T K T^T, T u, T f) = T residual(K, u, f) (so the unique clamped solution
    rotates)."""
    xp = env.xp
    s = surface(name="wing", nx=2, ny=ny, symmetry=True, side="left")
    # the rotation: exact rational matrix of a generic Gibbs vector (a symbolic one makes the element clause intractable)
    q = np.array([env.frac(a, b) for a, b in gibbs], dtype=object if env.sym else float)
    R = cayley(env, q)
    env.eq("C10", "Cayley matrix is a rotation (R R^T == I)", matmul(env, R, R.T), np.eye(3))
    rot = lambda v: matmul(env, np.asarray(v, dtype=object if env.sym else float).reshape(-1, 3), R.T).reshape(np.shape(v))
    # (1) nodes
    cn = env.comp("cn", lambda: cls("structures.compute_nodes.ComputeNodes")(surface=s))
    mesh = env.var("mesh", s["mesh"].shape)
    nodes = cn.compute(dict(mesh=mesh))["nodes"]
    env.eq("C10", "rotation: structural nodes of the rotated mesh are the rotated nodes", cn.compute(dict(mesh=rot(mesh)))["nodes"], rot(nodes))
    # (2) element stiffness through the real AssembleKGroup, Iy = Iz
    g = gsx.GroupSX(env, lambda m: m.add_subsystem("k", cls("structures.assemble_k_group.AssembleKGroup")(surface=s), promotes=["*"]))
    nd = env.var("nodes", (ny, 3))
    A, I, J = env.var("A", (ny - 1,)), env.var("I", (ny - 1,)), env.var("J", (ny - 1,))
    base = dict(nodes=nd, A=A, Iy=I, Iz=I, J=J)
    T4 = blockrot(env, R, 4)
    k1s, k2s = [], []
    for path, (v1, v2) in env.explore(lambda: (g.run(dict(base)), g.run(dict(base, nodes=rot(nd))))):
        tag = " @path(%d decisions)" % len(path) if path else ""
        k1 = g.get(v1, "local_stiff_transformed")
        k2 = g.get(v2, "local_stiff_transformed")
        for e in range(ny - 1):
            env.eq("C10", "rotation: element stiffness at rotated nodes == T K T^T (tube, Iy = Iz) [element %d]%s" % (e, tag),
                   k2[e], matmul(env, matmul(env, T4, k1[e]), T4.T))
    # (3) right-hand side
    rhs = env.comp("rhs", lambda: cls("structures.create_rhs.CreateRHS")(surface=s))
    env.indicator_branch = 0
    env.indicator_only = core.tiny_load_mask
    loads = env.var("total_loads", (ny, 6))
    f1 = np.asarray(rhs.compute(dict(total_loads=loads))["forces"]).reshape(-1)
    f2 = np.asarray(rhs.compute(dict(total_loads=rot(loads)))["forces"]).reshape(-1)
    Tn = blockrot(env, R, 2 * ny + 2)
    env.eq("C10", "rotation: right-hand side of the rotated loads == rotated right-hand side", f2, matmul(env, Tn, f1))
    # (4) the real FEM residual (any element matrices K_e, displacements u, right-hand side f)
    fem = env.comp("fem", lambda: cls("structures.fem.FEM")(surface=s))
    Ke = env.var("local_stiff_transformed", (ny - 1, 12, 12))
    u = env.var("u", (6 * ny + 6,))
    f = env.var("forces", (6 * ny + 6,))
    KeR = np.array([matmul(env, matmul(env, T4, Ke[e]), T4.T) for e in range(ny - 1)], dtype=object if env.sym else float)
    r1 = np.asarray(fem.residual(dict(local_stiff_transformed=Ke, forces=f), dict(disp_aug=u))["disp_aug"]).reshape(-1)
    r2 = np.asarray(fem.residual(dict(local_stiff_transformed=KeR, forces=matmul(env, Tn, f)), dict(disp_aug=matmul(env, Tn, u)))["disp_aug"]).reshape(-1)
    env.eq("C10", "rotation: FEM residual at (T K T^T, T u, T f) == T residual(K, u, f): the clamped solution of the rotated problem is the rotated solution",
           r2, matmul(env, Tn, r1))
    env.assumptions.add("non-singular clamped stiffness matrix (uniqueness of the displacements)")
    env.note("c10.rotation: invariance of the tube von Mises stresses under the rotation is not decided (nested radicals whose "
             "radicands agree only as rational functions); the clause concerns the displacement response")


@job("c10.disp", ("C10", "C04", "C07"), cfgs=[dict(ny=3, symmetry=True), dict(ny=4, symmetry=False), dict(ny=5, symmetry=False), dict(ny=2, symmetry=False, _tier=T)])
def disp_report(env, ny, symmetry):
    """the reported displacements are the solution of the clamped system, node by node: every free node (odd and even numbers
    of spanwise nodes, where 'the middle node' is a convention of the solver alone) carries the six unknowns the FEM solved for"""
    s = surface(name="wing", nx=2, ny=ny, symmetry=symmetry)
    h = env.comp("disp", lambda: cls("structures.disp.Disp")(surface=s))
    ins = h.inputs()
    u = np.asarray(ins["disp_aug"]).reshape(-1)
    root = ny - 1 if symmetry else (ny - 1) // 2          # the node the FEM clamps (its entries of the solution are zero)
    free = [j for j in range(ny) if j != root]
    env.eq("C10,C04,C07", "reported displacements of the free nodes == their entries of the solution vector (Lagrange multipliers dropped)",
           h.compute(ins)["disp"][free], u[:6 * ny].reshape(ny, 6)[free])


@job("c10.moment_only", ("C10",), cfgs=[dict(ny=2, symmetry=True), dict(ny=3, symmetry=False)], ranges=R10, cost=5)
def moment_only(env, ny, symmetry):
    """a load set made of nodal moments alone (every force component exactly zero) and one made of forces alone are solved
    like any other: the reported state is the solution of the clamped system for that right-hand side (linearity in the loads
    has no special case for vanishing forces or moments)"""
    s = surface(name="wing", nx=2, ny=ny, symmetry=symmetry, side="left")
    h = env.comp("fem", lambda: cls("structures.fem.FEM")(surface=s))
    ins = h.inputs()
    k = ins["local_stiff_transformed"]
    n = 6 * ny + 6
    K = np.empty((n, n), dtype=object if env.sym else float)
    K[...] = 0 * np.asarray(ins["forces"]).reshape(-1)[0]
    for e in range(ny - 1):
        K[6 * e:6 * e + 12, 6 * e:6 * e + 12] = K[6 * e:6 * e + 12, 6 * e:6 * e + 12] + k[e]
    root = ny - 1 if symmetry else (ny - 1) // 2
    for d in range(6):
        K[6 * root + d, 6 * ny + d] = K[6 * root + d, 6 * ny + d] + 10 ** 9
        K[6 * ny + d, 6 * root + d] = K[6 * ny + d, 6 * root + d] + 10 ** 9
    f0 = np.asarray(ins["forces"]).reshape(-1)
    for label, keep in (("moments only", lambda i: i % 6 >= 3), ("forces only", lambda i: i % 6 < 3)):
        f = f0.copy()
        for i in range(6 * ny):
            if not keep(i):
                f[i] = 0 * f[i] if not env.sym else S.lift(0)
        for i in range(6 * ny, n):
            f[i] = 0 * f[i] if not env.sym else S.lift(0)
        insL = dict(ins)
        insL["forces"] = f
        if env.sym:
            del spshim.SOLVES[:]
            x = h.solve_nonlinear(insL)["disp_aug"]
            ok = len(spshim.SOLVES) == 1
            if not spshim.SOLVES:
                # nothing was solved: right only for the zero load set, whose solution is zero
                env.eq("C10", "%s: no solve performed, so the loads are all zero" % label, np.asarray(f, dtype=object).reshape(-1), 0 * np.asarray(f, dtype=object).reshape(-1))
                env.eq("C10", "%s: no solve performed, so the reported state is zero" % label, np.asarray(x, dtype=object).reshape(-1), 0 * np.asarray(x, dtype=object).reshape(-1))
            else:
                env.holds("C10", "%s: solve_nonlinear performs one solve of the clamped system" % label, ok, "%d solves" % len(spshim.SOLVES))
            if ok:
                rec = spshim.SOLVES[0]
                env.eq("C10", "%s: the system solved is the clamped stiffness matrix" % label, rec["A"], S.lift(K))
                # up to a common scaling of the right-hand side (b = c f, reported = x / c): b_i f_k == b_k f_i, reported_i b_k == x_i f_k
                b = np.asarray(rec["b"], dtype=object).reshape(-1)
                fv = np.asarray(f, dtype=object).reshape(-1)
                kk = [i for i in range(6 * ny) if keep(i)][0]
                env.eq("C10", "%s: ... with these loads (possibly scaled) as right-hand side" % label, b * fv[kk], b[kk] * fv)
                env.eq("C10", "%s: the reported state is the solution of the system for these loads" % label,
                       np.asarray(x, dtype=object).reshape(-1) * b[kk], np.asarray(rec["x"], dtype=object).reshape(-1) * fv[kk])
        else:
            x = h.solve_nonlinear(insL)["disp_aug"]
            xs = np.linalg.solve(np.asarray(K, dtype=float), np.asarray(f, dtype=float))
            env.eq("C10", "%s: the reported state is the solution of that system" % label, np.asarray(x, dtype=float).reshape(-1)[:6 * ny], xs[:6 * ny])
