"""C11: load and displacement transfer conserve force and moment; rigid motion is exact."""
import numpy as np
from ..runner import job
from ..surfaces import surface
from .c01_components import cls, product, surf_of, MESH_RANGES, T

CFG = product([dict(nx=2, ny=3), dict(nx=3, ny=3, _tier=T), dict(nx=2, ny=4, _tier=T), dict(nx=3, ny=2)],
              [dict(symmetry=True, side="left"), dict(symmetry=False, _tier=T)],
              [dict(model="tube", fem_origin=0.35), dict(model="tube", fem_origin=0.0), dict(model="tube", fem_origin=1.0, _tier=T),
               dict(model="wingbox"),
               # the geometric reference axis of the design variables is not where the panel forces act
               dict(model="tube", fem_origin=0.35, ref_axis_pos=0.6)])


def quarter_chord_midspan(xp, mesh):
    """points of application of the panel forces, from the property statement: quarter chord of each panel, mid span"""
    qc_left = 0.75 * mesh[:-1, :-1, :] + 0.25 * mesh[1:, :-1, :]
    qc_right = 0.75 * mesh[:-1, 1:, :] + 0.25 * mesh[1:, 1:, :]
    return 0.5 * qc_left + 0.5 * qc_right


def total_moment(xp, pts, forces, q, moments=None):
    arm = pts - q
    m = xp.cross(arm.reshape(-1, 3), forces.reshape(-1, 3)).sum(axis=0)
    if moments is not None:
        m = m + moments.reshape(-1, 3).sum(axis=0)
    return m


@job("c11.LoadTransfer", ("C11",), cfgs=CFG)
def load_transfer(env, **cfg):
    env.add_ranges(*MESH_RANGES)
    xp = env.xp
    s = surf_of(cfg)
    lt = env.comp("lt", lambda: cls("transfer.load_transfer.LoadTransfer")(surface=s))
    cn = env.comp("cn", lambda: cls("structures.compute_nodes.ComputeNodes")(surface=s))
    mesh = env.var("def_mesh", lt.shape["def_mesh"])
    F = env.var("sec_forces", lt.shape["sec_forces"])
    q = env.var("q", (3,))
    nodes = cn.compute(dict(mesh=mesh))["nodes"]          # the structural nodes of the same (deformed) mesh
    a = quarter_chord_midspan(xp, mesh)
    from .c16 import runs
    # on a fresh component and on a live one last run with other forces or another mesh (wind-off after wind-on included)
    for lab, o in runs(env, "lt", lt.factory, dict(def_mesh=mesh, sec_forces=F)):
        loads = o["loads"]
        env.eq("C11", "total force conserved: sum loads[:, :3] == sum sec_forces" + lab, loads[:, :3].sum(axis=0), F.reshape(-1, 3).sum(axis=0))
        env.eq("C11", "total moment about any point q conserved (nodal moments + node x nodal force)" + lab,
               total_moment(xp, nodes, loads[:, :3], q, loads[:, 3:]), total_moment(xp, a, F, q))


@job("c11.MeshPointForces", ("C11",),
     cfgs=[dict(nx=2, ny=3, symmetry=True, side="left", nsurf=1), dict(nx=3, ny=3, symmetry=False, nsurf=1),
           dict(nx=2, ny=2, symmetry=True, side="right", nsurf=3)])
def mesh_point_forces(env, **cfg):
    from .c01_components import two_surfaces
    env.add_ranges(*MESH_RANGES)
    xp = env.xp
    surfs = two_surfaces(cfg)
    h = env.comp("mpf", lambda: cls("aerodynamics.mesh_point_forces.MeshPointForces")(surfaces=surfs))
    ins = h.inputs()
    outs = h.compute(ins)
    q = env.var("q", (3,))
    for s in surfs:
        n = s["name"]
        mesh = env.var(n + "_def_mesh", s["mesh"].shape)
        F = ins[n + "_sec_forces"]
        P = outs[n + "_mesh_point_forces"]
        env.eq("C11", "mesh-node forces: total force conserved [%s]" % n, P.reshape(-1, 3).sum(axis=0), F.reshape(-1, 3).sum(axis=0))
        env.eq("C11", "mesh-node forces: total moment about any point conserved [%s]" % n,
               total_moment(xp, mesh, P, q), total_moment(xp, quarter_chord_midspan(xp, mesh), F, q))


@job("c11.DisplacementTransfer", ("C11",), cfgs=product([dict(nx=2, ny=3), dict(nx=3, ny=2), dict(nx=2, ny=4, _tier=T)],
                                                         [dict(symmetry=True, side="left"), dict(symmetry=False, _tier=T)],
                                                         [dict(model="tube")]), cost=4)
def displacement_transfer(env, **cfg):
    env.add_ranges(*MESH_RANGES)
    xp = env.xp
    s = surf_of(cfg)
    tm = env.comp("tm", lambda: cls("transfer.compute_transformation_matrix.ComputeTransformationMatrix")(surface=s))
    dt = env.comp("dt", lambda: cls("transfer.displacement_transfer.DisplacementTransfer")(surface=s))
    nx, ny = dt.shape["mesh"][:2]
    mesh = env.var("mesh", (nx, ny, 3))
    nodes = env.var("nodes", (ny, 3))

    def def_mesh(disp):
        Tm = tm.compute(dict(disp=disp))["transformation_matrix"]
        return dt.compute(dict(mesh=mesh, disp=disp, transformation_matrix=Tm, nodes=nodes))["def_mesh"]

    zero = env.const(np.zeros((ny, 6)))
    env.eq("C11", "zero displacement leaves the mesh unchanged", def_mesh(zero), mesh)
    t = env.var("t", (ny, 3))
    disp_t = xp.concatenate([t, env.const(np.zeros((ny, 3)))], axis=1)
    env.eq("C11", "pure translation translates each chordwise section exactly", def_mesh(disp_t),
           mesh + t.reshape(1, ny, 3))
    # first-order rigid rotation of each chordwise section about its structural node
    J0 = env.deriv_at(lambda r: def_mesh(xp.concatenate([env.const(np.zeros((ny, 3))), r], axis=1)), "r", (ny, 3), 0.0)
    J0 = np.asarray(J0).reshape(nx, ny, 3, ny, 3)
    dr = env.var("dr", (ny, 3))
    lin = np.einsum("ijklm,lm->ijk", J0, dr) if not env.sym else xp.einsum("ijklm,lm->ijk", J0, dr)
    arm = mesh - nodes.reshape(1, ny, 3)
    want = xp.cross(xp.tile(dr.reshape(1, ny, 3), (nx, 1, 1)).reshape(-1, 3), arm.reshape(-1, 3)).reshape(nx, ny, 3)
    env.eq("C11", "rotations act to first order as a rigid rotation about the structural node: d def_mesh . dr == dr x (mesh - node)",
           lin, want)


@job("c11.MuxSurfaceForces", ("C11", "C19"),
     cfgs=[dict(nx=2, ny=3, symmetry=True, side="left", nsurf=1), dict(nx=2, ny=2, symmetry=True, side="right", nsurf=3),
           dict(nx=3, ny=3, symmetry=False, nsurf=2, _tier=T)])
def mux_forces(env, **cfg):
    """forces exported to external solvers: MeshPointForces -> MuxSurfaceForces, coordinates through DemuxSurfaceMesh"""
    from .c01_components import two_surfaces
    from mphys.core import MPhysVariables
    env.add_ranges(*MESH_RANGES)
    xp = env.xp
    surfs = two_surfaces(cfg)
    mpf = env.comp("mpf", lambda: cls("aerodynamics.mesh_point_forces.MeshPointForces")(surfaces=surfs))
    mux = env.comp("mux", lambda: cls("mphys.mux_surface_forces.MuxSurfaceForces")(surfaces=surfs))
    dmx = env.comp("dmx", lambda: cls("mphys.demux_surface_mesh.DemuxSurfaceMesh")(surfaces=surfs))
    XN = MPhysVariables.Aerodynamics.Surface.COORDINATES
    FN = MPhysVariables.Aerodynamics.Surface.LOADS
    x_flat = env.var("x_aero", dmx.shape[XN])
    meshes = dmx.compute({XN: x_flat})
    ins = mpf.inputs()
    P = mpf.compute(ins)
    f_flat = mux.compute({n: P[n] for n in mux.in_names})[FN]
    q = env.var("q", (3,))
    Fs = [ins[s["name"] + "_sec_forces"].reshape(-1, 3) for s in surfs]
    env.eq("C11", "exported nodal forces: total force conserved over all surfaces", f_flat.reshape(-1, 3).sum(axis=0),
           xp.concatenate(Fs, axis=0).sum(axis=0))
    want = 0
    for s in surfs:
        n = s["name"]
        want = want + total_moment(xp, quarter_chord_midspan(xp, meshes[n + "_def_mesh"]), ins[n + "_sec_forces"], q)
    env.eq("C11", "exported nodal forces: total moment about any point conserved (nodes = exported coordinates)",
           total_moment(xp, x_flat.reshape(-1, 3), f_flat.reshape(-1, 3), q), want)
    for s in surfs:
        n = s["name"]
        env.eq("C19", "demux(mesh) then per-surface block of mux(forces) are node-for-node aligned [%s]" % n,
               dmx.compute({XN: f_flat})[n + "_def_mesh"], P[n + "_mesh_point_forces"])


@job("c11.exported_forces_wiring", ("C11", "C19"),
     cfgs=[dict(nx=2, ny=3, symmetry=True, side="left", nsurf=1, compressible=True),
           dict(nx=2, ny=2, symmetry=True, side="right", nsurf=3, compressible=True),
           dict(nx=2, ny=2, symmetry=True, side="left", nsurf=2, compressible=False),
           dict(nx=2, ny=3, symmetry=False, nsurf=1, compressible=False, _tier=T)])
def exported_forces_wiring(env, compressible, **cfg):
    """modular step from the component contract (c11.MeshPointForces: node forces conserve force and moment of the panel
    forces *it is given*, on the mesh *it is given*) to the analysis point: in the real connection table of the
    incompressible and of the Prandtl-Glauert solver group, the component that exports the mesh-node forces is fed by the
    very panel forces the group reports (physical frame) and by the surface's deformed mesh"""
    from .. import gsx
    from .c06 import surfaces_for
    surfs = surfaces_for(cfg)
    g = gsx.GroupSX(env, gsx.aero_model(surfs, compressible=compressible))
    out_of = {}
    for a, pr in g.abs2prom_out.items():
        out_of.setdefault(pr, []).append(a)
    exporters = sorted({a.rsplit(".", 1)[0] for a in g.abs2prom_out if a.endswith("_mesh_point_forces")})
    env.holds("C11", "one component exports the mesh-node forces", len(exporters) == 1, str(exporters))
    for s in surfs:
        n = s["name"]
        reported = out_of.get("ap.aero_states.%s_sec_forces" % n, [])
        env.holds("C11", "the analysis point reports one panel-force array [%s]" % n, len(reported) == 1, str(reported))
        src = g.conn.get("%s.%s_sec_forces" % (exporters[0], n)) if exporters else None
        env.holds("C11,C19", "the exporter of the mesh-node forces reads the panel forces the analysis point reports [%s]" % n,
                  bool(reported) and src == reported[0], "reads %s, reported %s" % (src, reported))
        consumers = [a for a, so in g.conn.items() if reported and so == reported[0]]
        env.holds("C11", "the coefficient functionals read the same panel forces [%s]" % n,
                  any(a.endswith("%s_perf.sec_forces" % n) or a.endswith("%s_perf.liftdrag.sec_forces" % n) or ".%s_perf." % n in a
                      for a in consumers), str(consumers))
        # the mesh the exported forces refer to: the component has no mesh input, its output is indexed like def_mesh
        shp = g.meta_out[out_of["ap.aero_states.%s_mesh_point_forces" % n][0]]["shape"]
        env.holds("C11", "exported node forces are indexed like the surface mesh [%s]" % n, tuple(shp) == tuple(s["mesh"].shape), str(shp))
