"""Generic contract clauses shared by all components: derivative exactness (C01), history independence (C03)."""
import numpy as np
from .. import term as S
from ..term import RF


def _pairs(h):
    declared = {}
    for (of, wrt), inf in h.jinfo.items():
        declared[of, wrt] = inf
    return declared


def derivative_contract(env, factory, const=None, exempt=(), history=True, equality_paths=True, setup_model=None,
                        pre=None, skip_wrt=(), frame=True):
    """C01: J == d compute / d x entrywise for every declared analytic sub-Jacobian, d of/d wrt == 0 for every
    undeclared pair, on every explored path.  C03: outputs and Jacobian of compute(X'); partials(X'); compute(X);
    partials(X) on one live instance and storage equal those of a fresh instance at X; compute from havoc'd outputs
    does not depend on them; inputs are not written."""
    hB = env.comp("fresh", factory, setup_model)
    if pre:
        pre(env, hB)
    ins = hB.inputs(const=const)
    declared = _pairs(hB)

    def run_fresh():
        o = hB.compute(ins)
        j = hB.partials(ins)
        return o, j, list(hB.last_frame)

    generic = None
    npaths = 0
    for path, (outs, jac, frame_writes) in env.explore(run_fresh):
        npaths += 1
        eqpath = any(isinstance(c, S.SymBool) and c.op == '==' and b for c, b in path) if env.sym else False
        tag = ""
        if env.sym and path:
            tag = " @path(" + ";".join("%s=%s" % (_short(c), "T" if b else "F") for c, b in path) + ")"
        if not eqpath and generic is None:
            generic = (outs, path)
        for (of, wrt), inf in declared.items():
            if wrt in skip_wrt or (const and wrt in const):
                continue
            nm = "d%s/d%s" % (of, wrt)
            if inf['method']:
                continue
            if (of, wrt) in exempt or nm in exempt:
                continue
            D = jac.dense((of, wrt))
            if eqpath and env.sym and equality_paths and generic is not None:
                # equality path: the true derivative is that of the generic branch, specialised by the equality
                T = hB.true_jac(ins, generic[0], of, wrt)
                T = S.subs_array(T, _pin_mapping(env))
                D = S.subs_array(D, _pin_mapping(env))
            else:
                T = hB.true_jac(ins, outs, of, wrt)
            env.eq("C01", "D-exact %s%s" % (nm, tag if env.sym else ""), D, T)
        # sparsity: undeclared pairs have zero derivative
        for of in hB.out_names:
            for wrt in hB.in_names:
                if (of, wrt) in declared or wrt in skip_wrt or (const and wrt in const):
                    continue
                T = hB.true_jac(ins, outs, of, wrt)
                env.eq("C01", "D-sparsity d%s/d%s%s" % (of, wrt, tag if env.sym else ""), T, 0)
        if frame:
            env.holds("C03", "H-frame inputs unchanged by compute%s" % (tag if env.sym else ""), not frame_writes,
                      "compute wrote to its inputs: %s" % (frame_writes[:4],))
            env.holds("C01", "D-cs-safe compute leaves inputs unchanged%s" % (tag if env.sym else ""), not frame_writes,
                      "compute wrote to its inputs: %s" % (frame_writes[:4],))
    # index arrays of the declarations: in range and integer
    for (of, wrt), inf in declared.items():
        if inf['rows'] is not None:
            r = np.asarray(inf['rows'])
            c = np.asarray(inf['cols'])
            shape = inf['shape']
            ok = (r.dtype.kind in 'iu' and c.dtype.kind in 'iu' and len(r) == len(c) and (len(r) == 0 or (
                r.min() >= 0 and c.min() >= 0 and r.max() < shape[0] and c.max() < shape[1])))
            env.holds("C01", "D-index rows/cols in range d%s/d%s" % (of, wrt), ok)
    if not history:
        return hB
    # ---- history: live instance A visits X' first
    hA = env.comp("live", factory, setup_model)
    if pre:
        pre(env, hA)
    insP = hA.inputs(tag="P.", const=const)

    def run_live():
        hA.compute(insP)
        j = hA.partials(insP)
        o = hA.compute(ins, havoc="O0")
        j = hA.partials(ins, prev=j)
        return o, j

    for path, (outsA, jacA) in env.explore(run_live):
        # compare with a fresh instance on the same path
        hC = env.comp("fresh2", factory, setup_model)
        if pre:
            pre(env, hC)
        outsC = hC.compute(ins)
        jacC = hC.partials(ins)
        tag = ""
        if env.sym and path:
            tag = " @path(" + ";".join("%s=%s" % (_short(c), "T" if b else "F") for c, b in path) + ")"
        for n in hA.out_names:
            env.eq("C03", "H-out %s after visiting another point%s" % (n, tag), outsA[n], outsC[n])
        for k in declared:
            if declared[k]['method']:
                continue
            env.eq("C03", "H-jac d%s/d%s after linearising at another point%s" % (k[0], k[1], tag),
                   jacA.dense(k), jacC.dense(k))
    return hB


def _short(c):
    s = repr(c)
    return s if len(s) < 60 else s[:57] + "..."


def _pin_mapping(env):
    m = {}
    for nm, v in env.pins.items():
        key = ('var', nm)
        if key in S.A.by_key:
            from fractions import Fraction
            m[S.A.by_key[key]] = RF.const(Fraction(v).limit_denominator(10 ** 9))
    return m
