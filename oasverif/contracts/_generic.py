"""Generic contract clauses shared by all components: derivative exactness (C01), history independence (C03)."""
import numpy as np
from .. import term as S
from ..term import RF


def _pairs(h):
    declared = {}
    for (of, wrt), inf in h.jinfo.items():
        declared[of, wrt] = inf
    return declared


def derivative_contract(env, factory, const=None, exempt=(), history=True, equality_paths=True, setup_model=None,
                        pre=None, skip_wrt=(), frame=True, sibling=None):
    """C01: J == d compute / d x entrywise for every declared analytic sub-Jacobian, d of/d wrt == 0 for every
    undeclared pair, on every explored path.  C03: outputs and Jacobian of compute(X'); partials(X'); compute(X);
    partials(X) on one live instance and storage equal those of a fresh instance at X; compute from havoc'd outputs
    does not depend on them; inputs are not written."""
    if getattr(env, "only_isolation", False):
        return isolation_contract(env, factory, sibling, const=const, setup_model=setup_model, pre=pre)
    if getattr(env, "only_history", None):
        return history_contract(env, factory, env.only_history, const=const, setup_model=setup_model, pre=pre)
    hB = env.comp("fresh", factory, setup_model)
    if pre:
        pre(env, hB)
    ins = hB.inputs(const=const)
    declared = _pairs(hB)
    all_approx = bool(declared) and all(inf['method'] for inf in declared.values())
    if all_approx:
        env.note("%s: every partial is delegated to the framework (method=cs/fd); obligations are cs-safety, frame and "
                 "independence of previous outputs only" % hB.fq)

    timing = [0.0]

    def run_fresh():
        import time as _time
        t0 = _time.time()
        o = hB.compute(ins, havoc="O0" if all_approx else None)
        fr = list(hB.last_frame)
        if not all_approx:
            j = hB.partials(ins)
            fr += [("compute_partials:" + n, idx) for n, idx in hB.last_partials_frame]
        else:
            j = hB.csx.new_jac()
        timing[0] = max(timing[0], _time.time() - t0)
        return o, j, fr

    generic = None
    npaths = 0
    for path, (outs, jac, frame_writes) in env.explore(run_fresh):
        npaths += 1
        eqpath = any(isinstance(c, S.SymBool) and c.op == '==' and b for c, b in path) if env.sym else False
        tag = ""
        if env.sym and path:
            tag = " @path(" + ";".join("%s=%s" % (_short(c), "T" if b else "F") for c, b in path) + ")"
        if not eqpath and generic is None:
            generic = (outs, path)
        for (of, wrt), inf in declared.items():
            if wrt in skip_wrt or (const and wrt in const):
                continue
            nm = "d%s/d%s" % (of, wrt)
            if inf['method']:
                continue
            if (of, wrt) in exempt or nm in exempt:
                continue
            D = jac.dense((of, wrt))
            if eqpath and env.sym and equality_paths and generic is not None:
                # equality path: the true derivative is that of the generic branch, specialised by the equality
                T = hB.true_jac(ins, generic[0], of, wrt)
                T = S.subs_array(T, _pin_mapping(env))
                D = S.subs_array(D, _pin_mapping(env))
            else:
                T = hB.true_jac(ins, outs, of, wrt)
            env.eq("C01,C02", "D-exact %s%s" % (nm, tag if env.sym else ""), D, T)
        # sparsity: undeclared pairs have zero derivative
        for of in hB.out_names:
            for wrt in hB.in_names:
                if (of, wrt) in declared or wrt in skip_wrt or (const and wrt in const):
                    continue
                T = hB.true_jac(ins, outs, of, wrt)
                env.eq("C01,C02", "D-sparsity d%s/d%s%s" % (of, wrt, tag if env.sym else ""), T, 0)
        if all_approx:
            for n in hB.out_names:
                env.nodep("C03", "H-out %s does not depend on the previous outputs%s" % (n, tag if env.sym else ""), outs[n], "O0<")
        if frame:
            env.holds("C03", "H-frame inputs unchanged by compute%s" % (tag if env.sym else ""), not frame_writes,
                      "compute / compute_partials wrote to the inputs: %s" % (frame_writes[:4],))
            env.holds("C01,C02", "D-cs-safe compute leaves inputs unchanged%s" % (tag if env.sym else ""), not frame_writes,
                      "compute wrote to its inputs: %s" % (frame_writes[:4],))
            if any(inf['method'] == 'cs' for inf in declared.values()):
                # partials delegated to complex step: the value of no output may flow through abs() of an input-dependent
                # quantity (|z| is not analytic: the complex perturbation is lost)
                if env.sym:
                    bad = []
                    for (of, wrt), inf in declared.items():
                        if inf['method'] != 'cs':
                            continue
                        wv = set(S.var_id(v) for v in np.asarray(ins[wrt], dtype=object).reshape(-1) if isinstance(v, RF) and len(v.p) == 1 and not v.is_const())
                        if any(ev & wv for ev in S.ABS_EVENTS):
                            bad.append(wrt)
                    env.holds("C01,C02", "D-cs-safe outputs with complex-step partials do not flow through abs() of their inputs%s" % tag,
                              not bad, "the value of abs() of a quantity depending on %s is used in arithmetic" % sorted(set(bad))[:4])
                else:
                    _native_cs_check(env, hB, ins, declared)
    # index arrays of the declarations: in range and integer
    for (of, wrt), inf in declared.items():
        if inf['rows'] is not None:
            r = np.asarray(inf['rows'])
            c = np.asarray(inf['cols'])
            shape = inf['shape']
            ok = (r.dtype.kind in 'iu' and c.dtype.kind in 'iu' and len(r) == len(c) and (len(r) == 0 or (
                r.min() >= 0 and c.min() >= 0 and r.max() < shape[0] and c.max() < shape[1])))
            env.holds("C01", "D-index rows/cols in range d%s/d%s" % (of, wrt), ok)
    if not history:
        return hB
    t_eval = timing[0]
    ana = not all_approx
    ana_keys = [k for k in declared if not declared[k]['method']]

    def _tag(path):
        if env.sym and path:
            return " @path(" + ";".join("%s=%s" % (_short(c), "T" if b else "F") for c, b in path) + ")"
        return ""

    def _fresh_on_path():
        hC = env.comp("fresh2", factory, setup_model)
        if pre:
            pre(env, hC)
        outsC = hC.compute(ins)
        jacC = hC.partials(ins) if ana else None
        return outsC, jacC

    # ---- history: live instance A visits X' first
    hA = env.comp("live", factory, setup_model)
    if pre:
        pre(env, hA)
    insP = hA.inputs(tag="P.", const=const)

    def run_live():
        # one live output storage and one live Jacobian storage, as in a live Problem: whatever the visit to X' left
        # there is what the evaluation at X starts from
        store = hA.out_store()
        hA.compute(insP, outs=store)
        j = hA.partials(insP) if ana else None
        o = hA.compute(ins, outs=store)
        first = {}
        if ana:
            j = hA.partials(ins, prev=j)
            first = {k: np.array(j.dense(k)) for k in ana_keys}
            # linearising again at the same point without re-running the model, then re-running the model at the same point
            j = hA.partials(ins, prev=j)
        o2 = hA.compute(ins, outs=store)
        return o, j, first, o2

    import time as _time
    t_hist0 = _time.time()
    for path, (outsA, jacA, jacA_first, outsA2) in env.explore(run_live):
        # compare with a fresh instance on the same path
        outsC, jacC = _fresh_on_path()
        tag = _tag(path)
        for n in hA.out_names:
            env.eq("C03", "H-out %s after visiting another point%s" % (n, tag), outsA[n], outsC[n])
            env.eq("C03", "H-out %s when the model is run again at the same point%s" % (n, tag), outsA2[n], outsC[n])
        for k in ana_keys:
            env.eq("C01,C02,C03", "H-jac d%s/d%s after linearising at another point%s" % (k[0], k[1], tag),
                   jacA_first[k], jacC.dense(k))
            env.eq("C01,C02,C03", "H-jac d%s/d%s when linearised twice at the same point%s" % (k[0], k[1], tag),
                   jacA.dense(k), jacC.dense(k))
    t_hist = _time.time() - t_hist0
    # ---- history: the previous point differs from X in exactly one input (anything remembered under a key that
    # leaves that input out is stale at X)
    free = [k for k in hB.in_names if not (const and k in const)]
    # cost guard (quick tier): the revisits cost about two evaluations per input; components whose single symbolic
    # evaluation is already slow get them in the thorough tier only (stated in the evidence notes)
    import os as _os
    thorough = _os.environ.get("OASVERIF_TIER", "quick") == "thorough"
    est = max(2.0 * len(free) * t_eval, len(free) * t_hist)      # each revisit costs about as much as the history block above
    if len(free) > 1 and est > (1500.0 if thorough else 60.0):
        env.note("%s: one-input-changed histories skipped (estimated %.0f s, budget %s s)%s" % (
            hB.fq, est, 1500 if thorough else 60, "" if thorough else "; run in the thorough tier"))
        free = []
    if len(free) > 1:
        for kin in free:
            hK = env.comp("live1." + kin, factory, setup_model)
            if pre:
                pre(env, hK)
            insK = dict(ins)
            insK[kin] = insP[kin]

            def run_one(hK=hK, insK=insK):
                store = hK.out_store()
                hK.compute(insK, outs=store)
                j = hK.partials(insK) if ana else None
                o = hK.compute(ins, outs=store)
                if ana:
                    j = hK.partials(ins, prev=j)
                return o, j

            for path, (outsK, jacK) in env.explore(run_one):
                outsC, jacC = _fresh_on_path()
                tag = _tag(path)
                for n in hK.out_names:
                    env.eq("C03", "H-out %s after visiting a point that differs only in %s%s" % (n, kin, tag), outsK[n], outsC[n])
                for k in ana_keys:
                    env.eq("C01,C02,C03", "H-jac d%s/d%s after linearising at a point that differs only in %s%s" % (k[0], k[1], kin, tag),
                           jacK.dense(k), jacC.dense(k))
    return hB


def history_contract(env, factory, props, const=None, setup_model=None, pre=None):
    """the outputs of a live instance are those of a fresh instance (a) after one evaluation at an unrelated point and (b),
    for every input in turn, after two evaluations that differ from the current point - and from each other - in that input
    alone (a sweep of one quantity: whatever is remembered under a key that leaves it out, or accumulated per call, shows at
    the third evaluation).  Compute only; tagged with the properties whose statements are about this component's outputs."""
    hF = env.comp("fresh", factory, setup_model)
    if pre:
        pre(env, hF)
    ins = hF.inputs(const=const)
    hA = env.comp("live", factory, setup_model)
    if pre:
        pre(env, hA)
    insP = hA.inputs(tag="P.", const=const)
    insQ = hA.inputs(tag="P2.", const=const)

    def _tag(path):
        if env.sym and path:
            return " @path(" + ";".join("%s=%s" % (_short(c), "T" if b else "F") for c, b in path) + ")"
        return ""

    def fresh():
        hC = env.comp("fresh2", factory, setup_model)
        if pre:
            pre(env, hC)
        return hC.compute(ins)

    def quietly(f, *a, **k):
        # which branch an earlier evaluation took is immaterial here (deriv.<name> explores those under C03): default branch
        S.PATH.mute = True
        try:
            return f(*a, **k)
        finally:
            S.PATH.mute = False

    def visit_then():
        st = hA.out_store()
        quietly(hA.compute, insP, outs=st)
        return hA.compute(ins, outs=st)
    import time as _time
    import os as _os
    t0 = _time.time()
    for path, o in env.explore(visit_then):
        oC = fresh()
        for n in hA.out_names:
            env.eq(props, "H-out %s after an evaluation at another point%s" % (n, _tag(path)), o[n], oC[n])
    t1 = _time.time() - t0
    # the same Problem set up twice before it is run (lists or counters filled in setup() and created elsewhere grow)
    def factory_resetup():
        c = factory()
        c._oasverif_resetup = True
        return c
    try:
        hR = env.comp("resetup", factory_resetup, setup_model)
        if pre:
            pre(env, hR)
        same = hR.in_names == hF.in_names and hR.out_names == hF.out_names and all(hR.shape[n] == hF.shape[n] for n in hF.in_names + hF.out_names)
        err = None if same else "variables or shapes differ after the second set-up"
    except S.OutsideFragment:
        raise
    except Exception as e:
        hR, err = None, "%s: %s" % (type(e).__name__, str(e)[:120])
    env.holds(props, "H-setup a second set-up of the same Problem leaves the component's variables and shapes unchanged", err is None, err or "")
    if err is None:
        for path, o in env.explore(lambda: hR.compute(ins)):
            oC = fresh()
            for n in hR.out_names:
                env.eq(props, "H-out %s after the Problem was set up twice%s" % (n, _tag(path)), o[n], oC[n])
    free = [k for k in hF.in_names if not (const and k in const)]
    # cost guard: a sweep costs about 4/3 of the block above per input; components whose symbolic evaluation is slow get the
    # sweeps in the thorough tier only (noted in the evidence)
    thorough = _os.environ.get("OASVERIF_TIER", "quick") == "thorough"
    est = 1.4 * t1 * len(free)
    if est > (150.0 if thorough else 25.0):
        env.note("%s: sweep histories skipped (estimated %.0f s)%s" % (hF.fq, est, "" if thorough else "; run in the thorough tier"))
        free = []
    for kin in free:
        hK = env.comp("live2." + kin, factory, setup_model)
        if pre:
            pre(env, hK)
        i1, i2 = dict(ins), dict(ins)
        i1[kin] = insP[kin]
        i2[kin] = insQ[kin]

        def sweep(hK=hK, i1=i1, i2=i2):
            st = hK.out_store()
            quietly(hK.compute, i1, outs=st)
            quietly(hK.compute, i2, outs=st)
            return hK.compute(ins, outs=st)
        for path, o in env.explore(sweep):
            oC = fresh()
            for n in hK.out_names:
                env.eq(props, "H-out %s at the third evaluation of a sweep of %s%s" % (n, kin, _tag(path)), o[n], oC[n])
    return hF


def isolation_contract(env, factory, sibling, const=None, setup_model=None, pre=None):
    """C20 / C03: an instance gives the outputs and the Jacobian of a fresh instance although an independent instance of
    the same class, built for another configuration (same surface names, other mesh size), was set up and evaluated
    between its own set-up and its evaluation: nothing is shared between instances"""
    if sibling is None:
        return None
    hF = env.comp("iso.fresh", factory, setup_model)
    if pre:
        pre(env, hF)
    ins = hF.inputs(const=const)
    declared = _pairs(hF)
    ana_keys = [k for k in declared if not declared[k]['method']]

    def run():
        o = hF.compute(ins)
        j = hF.partials(ins) if ana_keys else None
        hA = env.comp("iso.A", factory, setup_model)           # set up first ...
        if pre:
            pre(env, hA)
        hS = env.comp("iso.other", sibling, setup_model)       # ... then the independent instance, set up and evaluated
        if pre:
            pre(env, hS)
        insS = hS.inputs(tag="Q.", const=const)
        S.PATH.mute = True                                      # which branch the other instances take is immaterial
        try:
            hS.compute(insS)
            if ana_keys:
                hS.partials(insS)
        finally:
            S.PATH.mute = False
        try:
            oA = hA.compute(ins)
            # ... and a twin of A itself (same class, same configuration, as in a second Problem of the same script) is
            # evaluated at another point between A's evaluation and A's linearisation
            hT = env.comp("iso.twin", factory, setup_model)
            if pre:
                pre(env, hT)
            insT = hT.inputs(tag="Q2.", const=const)
            S.PATH.mute = True
            try:
                hT.compute(insT)
                if ana_keys:
                    hT.partials(insT)
            finally:
                S.PATH.mute = False
            jA = hA.partials(ins) if ana_keys else None
        except S.OutsideFragment:
            raise
        except Exception as e:                                  # e.g. arrays of the other instance's size
            return o, j, None, None, "%s: %s" % (type(e).__name__, e)
        return o, j, oA, jA, None

    for path, (o, j, oA, jA, err) in env.explore(run):
        tag = ""
        if env.sym and path:
            tag = " @path(" + ";".join("%s=%s" % (_short(c), "T" if b else "F") for c, b in path) + ")"
        env.holds("C20,C03", "I-iso evaluation succeeds after an independent instance was set up and evaluated%s" % tag,
                  err is None, "raised %s" % err)
        if err is not None:
            continue
        for n in hF.out_names:
            env.eq("C20,C03", "I-iso %s unaffected by an independent instance%s" % (n, tag), oA[n], o[n])
        for k in ana_keys:
            env.eq("C20,C03,C01,C02", "I-iso d%s/d%s unaffected by an independent instance%s" % (k[0], k[1], tag),
                   jA.dense(k), j.dense(k))
        # the instances are re-created for the next path
        for key in ("iso.A", "iso.other", "iso.twin"):
            env.comps.pop(key, None)
    return hF


def _short(c):
    s = repr(c)
    return s if len(s) < 60 else s[:57] + "..."


def _pin_mapping(env):
    m = {}
    for nm, v in env.pins.items():
        key = ('var', nm)
        if key in S.A.by_key:
            from fractions import Fraction
            m[S.A.by_key[key]] = RF.const(Fraction(v).limit_denominator(10 ** 9))
    return m


# every statement about aerodynamic or structural results rests on "the system solved is that of the current point"
SOLVE_PROPS = "C02,C03,C04,C05,C06,C07,C08,C09,C10,C15,C16,C19"


def implicit_contract(env, factory, setup_model=None, pre=None, requires=None):
    """implicit component (R(inputs, outputs) = 0):
    C01: linearize J[of, wrt] == d R_of / d wrt for inputs and outputs, undeclared pairs zero.
    C03: second linearisation on live storage equals a fresh one.
    C02/C05/C10: solve_nonlinear returns x with R(x) == 0 given the contract of the factorisation stub (op(A) x = b);
    solve_linear in fwd mode solves (dR/du) d_outputs = d_residuals and in rev mode (dR/du)^T d_residuals = d_outputs
    with the matrix factorised by the latest linearize/solve_nonlinear."""
    from .. import spshim
    h = env.comp("fresh", factory, setup_model)
    if pre:
        pre(env, h)
    ins = h.inputs()
    outs = {n: env.var("u." + n, h.shape[n]) for n in h.out_names}
    res = h.residual(ins, outs)
    jac = h.linearize(ins, outs)
    declared = h.jinfo
    for (of, wrt), inf in declared.items():
        if inf['method']:
            continue
        env.eq("C01", "D-exact dR(%s)/d%s" % (of, wrt), jac.dense((of, wrt)), h.true_jac_res(ins, outs, res, of, wrt))
    for of in h.out_names:
        for wrt in h.in_names + h.out_names:
            if (of, wrt) not in declared:
                env.eq("C01", "D-sparsity dR(%s)/d%s" % (of, wrt), h.true_jac_res(ins, outs, res, of, wrt), 0)
    # history
    hA = env.comp("live", factory, setup_model)
    if pre:
        pre(env, hA)
    insP = hA.inputs(tag="P.")
    outsP = {n: env.var("P.u." + n, hA.shape[n]) for n in hA.out_names}
    hA.residual(insP, outsP)
    j = hA.linearize(insP, outsP)
    resA = hA.residual(ins, outs)
    j = hA.linearize(ins, outs, prev=j)
    for n in h.out_names:
        env.eq("C03", "H-out residual %s after visiting another point" % n, resA[n], res[n])
    for k in declared:
        if not declared[k]['method']:
            env.eq("C01,C02,C03", "H-jac dR(%s)/d%s after linearising at another point" % k, j.dense(k), jac.dense(k))
    # solve contracts (under the component's precondition on its inputs, if any)
    if requires is not None:
        ins = requires(env, h, ins)
    if env.sym:
        del spshim.SOLVES[:]
        x = h.solve_nonlinear(ins)
        nsolve = len(spshim.SOLVES)
        env.holds("C02", "S-nl solve_nonlinear performs exactly one factorised solve", nsolve == 1, "%d solves" % nsolve)
        if nsolve == 1 and len(h.out_names) == 1:
            # the reported state is the unknown of the factorised solve, untouched (any rounding, clipping or masking of the
            # solution - however small the entries - would break linearity in the right-hand side)
            n0 = h.out_names[0]
            env.eq("C02,C05,C10", "S-nl the reported state is exactly the solution of the factorised solve [%s]" % n0,
                   np.asarray(x[n0], dtype=object).reshape(-1), np.asarray(spshim.SOLVES[0]["x"], dtype=object).reshape(-1))
            x = {n0: np.asarray(spshim.SOLVES[0]["x"], dtype=object).reshape(h.shape[n0]).view(S.SymArray)}
        r = h.residual(ins, x)
        if nsolve == 1:
            rec = spshim.SOLVES[0]
            A = rec["A"].T if rec["trans"] else rec["A"]
            lhs = spshim._mm(A, np.asarray(rec["x"], dtype=object).reshape(-1)) - np.asarray(rec["b"], dtype=object).reshape(-1)
            for n in h.out_names:
                env.eq("C02", "S-nl residual at the solve_nonlinear result is the solved system (R(x) == A x - b) [%s]" % n,
                       np.asarray(r[n], dtype=object).reshape(-1), lhs)
        # a live instance that solved and linearised at another point first: the solve at the current point factorises the
        # current matrix (no factorisation remembered under a key that does not determine the matrix)
        if nsolve == 1:
            hS = env.comp("live.solve", factory, setup_model)
            if pre:
                pre(env, hS)
            insQ = hS.inputs(tag="P.")
            if requires is not None:
                insQ = requires(env, hS, insQ)
            fresh_rec = spshim.SOLVES[0]

            def revisit():
                xq = hS.solve_nonlinear(insQ)
                hS.linearize(insQ, xq)
                del spshim.SOLVES[:]
                hS.solve_nonlinear(ins)
                return list(spshim.SOLVES)
            for path, sol in env.explore(revisit):
                tag = (" @path(%s)" % ";".join("%s=%s" % (_short(c), "T" if b else "F") for c, b in path)) if path else ""
                env.holds("C02,C03", "S-nl after a visit to another point: one factorised solve%s" % tag, len(sol) == 1, "%d solves" % len(sol))
                if len(sol) == 1:
                    env.eq(SOLVE_PROPS, "S-nl after a visit to another point the factorised matrix is that of the current point%s" % tag,
                           sol[0]["A"], fresh_rec["A"])
                    env.eq(SOLVE_PROPS, "S-nl after a visit to another point the right-hand side is the current one%s" % tag,
                           np.asarray(sol[0]["b"], dtype=object).reshape(-1), np.asarray(fresh_rec["b"], dtype=object).reshape(-1))
            del spshim.SOLVES[:]
        # solve_linear after linearize at (ins, x): both modes
        h.linearize(ins, x)
        Juu = {(of, wrt): h.true_jac_res(ins, x, r, of, wrt) for of in h.out_names for wrt in h.out_names}
        for mode in ("fwd", "rev"):
            del spshim.SOLVES[:]
            dv = {n: env.var("d_%s.%s" % (mode, n), h.shape[n]) for n in h.out_names}
            # the vector that receives the solution holds whatever the previous iteration of an outer linear solver left
            # there (OpenMDAO does not clear it): the result must not depend on it
            stale = {n: env.var("stale_%s.%s" % (mode, n), h.shape[n]) for n in h.out_names}
            if mode == "fwd":
                do, dr = h.solve_linear(stale, dv, mode)
                sol, rhs = do, dv
            else:
                do, dr = h.solve_linear(dv, stale, mode)
                sol, rhs = dr, dv
            env.holds("C02", "S-lin[%s] one factorised solve" % mode, len(spshim.SOLVES) == 1, "%d solves" % len(spshim.SOLVES))
            if len(spshim.SOLVES) != 1 or len(h.out_names) != 1:
                continue
            rec = spshim.SOLVES[0]
            n = h.out_names[0]
            A = rec["A"].T if rec["trans"] else rec["A"]
            J = Juu[n, n]
            Jm = S.lift(np.asarray(J, dtype=object))
            want = Jm if mode == "fwd" else Jm.T
            env.eq("C02", "S-lin[%s] solved operator is %s of the current point" % (mode, "dR/du" if mode == "fwd" else "(dR/du)^T"),
                   A, want)
            env.eq("C02", "S-lin[%s] right-hand side is the given seed" % mode, np.asarray(rec["b"], dtype=object).reshape(-1),
                   np.asarray(rhs[n], dtype=object).reshape(-1))
            env.eq("C02", "S-lin[%s] result vector is the solve's unknown" % mode, np.asarray(sol[n], dtype=object).reshape(-1),
                   np.asarray(rec["x"], dtype=object).reshape(-1))
    else:
        x = h.solve_nonlinear(ins)
        r = h.residual(ins, x)
        for n in h.out_names:
            env.eq("C02", "S-nl residual at the solve_nonlinear result is the solved system (R(x) == A x - b) [%s]" % n,
                   np.asarray(r[n]).reshape(-1), 0 * np.asarray(r[n]).reshape(-1))
        # native counterpart of "the reported state is exactly the solution": the residual also vanishes when the solution
        # is tiny (right-hand side scaled by 1e-9: inputs whose name says rhs / forces)
        tiny = dict(ins)
        scaled = [k for k in h.in_names if k in ("rhs", "forces")]
        for k in scaled:
            tiny[k] = np.asarray(ins[k], dtype=float) * 1e-9
        if scaled:
            xt = h.solve_nonlinear(tiny)
            rt = h.residual(tiny, xt)
            for n in h.out_names:
                env.eq("C02,C05,C10", "S-nl the reported state is exactly the solution of the factorised solve [%s]" % n,
                       np.asarray(rt[n]).reshape(-1) * 1e9, 0 * np.asarray(rt[n]).reshape(-1))
        hS = env.comp("live.solve", factory, setup_model)
        insQ = hS.inputs(tag="P.")
        if requires is not None:
            insQ = requires(env, hS, insQ)
        xq = hS.solve_nonlinear(insQ)
        hS.linearize(insQ, xq)
        x2 = hS.solve_nonlinear(ins)
        r2 = h.residual(ins, x2)
        sc = max(float(np.max(np.abs(np.asarray(ins[k], dtype=float)))) for k in h.in_names)
        for n in h.out_names:
            env.eq(SOLVE_PROPS, "S-nl after a visit to another point the factorised matrix is that of the current point",
                   np.asarray(r2[n]).reshape(-1) / sc, 0 * np.asarray(r2[n]).reshape(-1))
    return h


def _native_cs_check(env, h, ins, declared):
    """native counterpart of the abs()-flow obligation: complex step of the real compute agrees with central differences"""
    bad = []
    for (of, wrt), inf in declared.items():
        if inf['method'] != 'cs':
            continue
        fd = h._native_fd(ins, of, wrt)
        x0 = np.array(np.broadcast_to(np.asarray(ins[wrt], dtype=float), h.shape[wrt]))
        cs = np.zeros_like(fd)
        for j in range(x0.size):
            vals = {n: np.array(np.broadcast_to(np.asarray(ins[n], dtype=float), h.shape[n]), dtype=complex) for n in h.in_names}
            vals[wrt].reshape(-1)[j] += 1e-30j
            h.comp.under_complex_step = True
            try:
                o = h.csx.native_compute(vals, complex_=True)
            finally:
                h.comp.under_complex_step = False
            cs[:, j] = np.asarray(o[of]).reshape(-1).imag / 1e-30
        if np.max(np.abs(cs - fd)) > 1e-5 * (1 + np.max(np.abs(fd))):
            bad.append((of, wrt))
    env.holds("C01,C02", "D-cs-safe outputs with complex-step partials do not flow through abs() of their inputs", not bad, str(bad))
