"""C17: performance and flight-condition functionals satisfy their defining identities (specs from the statement)."""
import numpy as np
from ..runner import job
from .c01_components import cls, two_surfaces, T, POS
from .c16 import G

SURFS = [dict(nx=2, ny=3, symmetry=True, side="left", nsurf=1), dict(nx=2, ny=3, symmetry=False, nsurf=2),
         dict(nx=2, ny=2, symmetry=True, side="right", nsurf=3), dict(nx=2, ny=3, symmetry=False, nsurf=3, _tier=T)]
R = tuple(POS) + ((r"CL|CD", 0.2, 0.8), (r"Mach", 0.3, 0.8), (r"load_factor", 0.5, 2.5), (r"cg", -1.0, 2.0),
                  (r"b_pts|sec_forces", -1.5, 1.5), (r"widths|chords", 0.5, 1.5))


def s0(x):
    return np.asarray(x).reshape(-1)[0]


@job("c17.TotalLiftDrag", ("C17", "C06"), cfgs=SURFS, ranges=R)
def total_lift_drag(env, **cfg):
    surfs = two_surfaces(cfg)
    h = env.comp("tld", lambda: cls("functionals.total_lift_drag.TotalLiftDrag")(surfaces=surfs))
    sa = env.comp("sa", lambda: cls("functionals.sum_areas.SumAreas")(surfaces=surfs))
    ins = h.inputs()
    o = h.compute(ins)
    qdyn = env.frac(1, 2) * s0(ins["rho"]) * s0(ins["v"]) ** 2
    names = [s["name"] for s in surfs]
    SCL = sum(s0(ins[n + "_S_ref"]) * s0(ins[n + "_CL"]) for n in names)
    SCD = sum(s0(ins[n + "_S_ref"]) * s0(ins[n + "_CD"]) for n in names)
    St = s0(ins["S_ref_total"])
    env.eq("C17", "CL == sum CL_i S_i / S_ref_total", s0(o["CL"]) * St, SCL)
    env.eq("C17", "CD == sum CD_i S_i / S_ref_total", s0(o["CD"]) * St, SCD)
    env.eq("C17", "L == q * sum S_i CL_i", s0(o["L"]), qdyn * SCL)
    env.eq("C17", "D == q * sum S_i CD_i", s0(o["D"]), qdyn * SCD)
    # summed reference area: S_ref_total = sum S_i, then L = q S CL
    Stot = s0(sa.compute({n + "_S_ref": ins[n + "_S_ref"] for n in names})["S_ref_total"])
    env.eq("C17", "summed reference area == sum of the surface areas", Stot, sum(s0(ins[n + "_S_ref"]) for n in names))
    i2 = dict(ins)
    i2["S_ref_total"] = Stot
    o2 = h.compute(i2)
    env.eq("C17", "with the summed area: L == q S_ref_total CL", s0(o2["L"]), qdyn * Stot * s0(o2["CL"]))
    env.eq("C17", "with the summed area: D == q S_ref_total CD", s0(o2["D"]), qdyn * Stot * s0(o2["CD"]))


@job("c17.Equilibrium_CG_Breguet", ("C17",), cfgs=SURFS, ranges=R)
def equilibrium(env, **cfg):
    xp = env.xp
    surfs = two_surfaces(cfg)
    names = [s["name"] for s in surfs]
    eq = env.comp("eq", lambda: cls("functionals.equilibrium.Equilibrium")(surfaces=surfs))
    cg = env.comp("cg", lambda: cls("functionals.center_of_gravity.CenterOfGravity")(surfaces=surfs))
    br = env.comp("br", lambda: cls("functionals.breguet_range.BreguetRange")(surfaces=surfs))
    ins = eq.inputs()
    o = eq.compute(ins)
    n = s0(ins["load_factor"])
    Ws = sum(s0(ins[k + "_structural_mass"]) for k in names)
    W = (s0(ins["W0"]) + Ws + s0(ins["fuelburn"])) * G * n
    L = env.frac(1, 2) * s0(ins["rho"]) * s0(ins["v"]) ** 2 * s0(ins["S_ref_total"]) * s0(ins["CL"])
    env.eq("C17", "total weight == (W0 + structural masses + fuel) g n", s0(o["total_weight"]), W)
    env.eq("C17", "lift-equals-weight residual == 1 - L / W", (1 - s0(o["L_equals_W"])) * W, L)
    # aircraft cg: mass-weighted mean of empty weight and structures, fuel at the cg (chain Equilibrium -> CenterOfGravity
    # through total_weight, same load factor)
    cin = cg.inputs(total_weight=o["total_weight"], fuelburn=ins["fuelburn"], W0=ins["W0"], load_factor=ins["load_factor"],
                    **{k + "_structural_mass": ins[k + "_structural_mass"] for k in names})
    c = cg.compute(cin)["cg"]
    num = s0(ins["W0"]) * cin["empty_cg"]
    for k in names:
        num = num + s0(ins[k + "_structural_mass"]) * cin[k + "_cg_location"]
    env.eq("C17", "aircraft cg == mass-weighted mean of empty-weight cg and structural cgs (fuel at the cg), any load factor",
           c * (s0(ins["W0"]) + Ws), num)
    # Breguet: (W0 + Ws + fuelburn) == (W0 + Ws) exp(R CT CD / (a M CL))
    bin_ = br.inputs(W0=ins["W0"], **{k + "_structural_mass": ins[k + "_structural_mass"] for k in names})
    fb = s0(br.compute(bin_)["fuelburn"])
    W1 = s0(ins["W0"]) + Ws
    expo = s0(bin_["R"]) * s0(bin_["CT"]) * s0(bin_["CD"]) / (s0(bin_["speed_of_sound"]) * s0(bin_["Mach_number"]) * s0(bin_["CL"]))
    env.eq("C17", "fuel burn follows the Breguet range equation: W0 + Ws + fuelburn == (W0 + Ws) exp(R CT CD / (a M CL))",
           W1 + fb, W1 * xp.exp(expo))


@job("c17.MomentCoefficient", ("C17", "C06"), cfgs=SURFS, ranges=R, cost=3)
def moment_coefficient(env, **cfg):
    xp = env.xp
    surfs = two_surfaces(cfg)
    h = env.comp("mc", lambda: cls("functionals.moment_coefficient.MomentCoefficient")(surfaces=surfs))
    ins = h.inputs()
    o = h.compute(ins)
    cg = ins["cg"]
    M = 0
    for j, s in enumerate(surfs):
        n = s["name"]
        b = ins[n + "_b_pts"]
        F = ins[n + "_sec_forces"]
        pts = 0.5 * (b[:, 1:, :] + b[:, :-1, :])                 # quarter-chord point of each panel, mid span
        m = xp.cross((pts - cg).reshape(-1, 3), F.reshape(-1, 3)).sum(axis=0)
        if s["symmetry"]:
            # the mirrored half contributes the mirror-image moment: x and z components cancel, y doubles
            m = xp.array([0 * m[0], 2 * m[1], 0 * m[2]])
        M = M + m
        if j == 0:
            pc = 0.5 * (ins[n + "_chords"][1:] + ins[n + "_chords"][:-1])
            MAC = (pc * pc * ins[n + "_widths"]).sum() / s0(ins[n + "_S_ref"]) * (2 if s["symmetry"] else 1)
    env.eq("C17", "M == summed moment of the sectional forces about the cg (symmetric surfaces account for both halves)", o["M"], M)
    qdyn = env.frac(1, 2) * s0(ins["rho"]) * s0(ins["v"]) ** 2
    env.eq("C17", "CM == M / (q S_ref_total MAC of the first surface)", o["CM"] * (qdyn * s0(ins["S_ref_total"]) * MAC), M)


@job("c17.Atmos", ("C17",), ranges=[(r"altitude", 1000.0, 40000.0), (r"Mach", 0.2, 0.9)] + list(POS))
def atmos(env):
    import openmdao.api as om
    env.use_helpers("atmos")
    env.assumptions.add("mutual consistency (ideal gas, speed of sound) and continuity of the five independently Akima-"
                        "interpolated table columns are properties of scipy's interpolant applied to data: not decided")
    a = env.comp("atm", lambda: cls("common.atmos_comp.AtmosComp")())
    r = env.comp("re", lambda: cls("common.reynolds_comp.ReynoldsComp")())
    ins = a.inputs()
    from .c16 import runs
    import openaerostruct.common.atmos_comp as AC
    alt = ins["altitude"]
    table = dict(T="T_interp", P="P_interp", rho="rho_interp", speed_of_sound="a_interp", mu="viscosity_interp")
    # on a fresh component and on a live one last evaluated at another altitude or Mach number
    for lab, o in runs(env, "atm", a.factory, ins):
        env.eq("C17", "v == Mach * speed of sound" + lab, s0(o["v"]), s0(ins["Mach_number"]) * s0(o["speed_of_sound"]))
        for nm, f in table.items():
            # the module's interpolant (its helper contract in the symbolic run), evaluated at the current altitude
            env.eq("C17", "%s is the tabulated value at the current altitude%s" % (nm, lab), s0(o[nm]),
                   s0(env.call(lambda h_, f=f: getattr(AC, f)(h_), alt)))
    o = a.compute(ins)
    rin = r.inputs()
    env.eq("C17", "Reynolds number per length == rho v / mu", s0(r.compute(rin)["re"]) * s0(rin["mu"]), s0(rin["rho"]) * s0(rin["v"]))
    # wiring of AtmosGroup: the Reynolds component reads the atmosphere's own rho, mu, v (same units, no conversion)
    if env.sym:
        from openaerostruct.common.atmos_group import AtmosGroup
        p = om.Problem(reports=False)
        p.model.add_subsystem("g", AtmosGroup(), promotes=["*"])
        p.setup()
        p.final_setup()
        conn = p.model._conn_global_abs_in2out
        want = {"g.reynolds.rho": "g.atmos.rho", "g.reynolds.mu": "g.atmos.mu", "g.reynolds.v": "g.atmos.v"}
        for tgt, src in want.items():
            env.holds("C17", "AtmosGroup wiring: %s <- %s" % (tgt, src), conn.get(tgt) == src, "connected to %s" % conn.get(tgt))
            mi = p.model._var_allprocs_abs2meta["input"][tgt]
            mo = p.model._var_allprocs_abs2meta["output"][src]
            env.holds("C17", "AtmosGroup wiring: %s and %s have the same units" % (tgt, src), mi["units"] == mo["units"],
                      "%s vs %s" % (mi["units"], mo["units"]))


@job("c17.atmos_table", ("C17",))
def atmos_table(env):
    """mutual consistency of the five tabulated columns, decided exhaustively at the 112 table nodes (where the Akima
    interpolants of the component reproduce the data) and sampled at the mid-points between nodes: speed of sound
    a^2 == gamma R T, ideal gas P == rho R T (imperial units of the table: ft, degR, psi, slug/ft^3, ft/s), and pressure and
    density strictly decreasing with altitude (no kink from a mistyped entry)"""
    import openaerostruct.common.atmos_comp as A
    d = A.USatm1976Data
    alt = np.asarray(d.alt, dtype=float)
    R, gam = 1716.49, 1.4                      # ft lbf / (slug degR), air
    cols = dict(T=A.T_interp, P=A.P_interp, rho=A.rho_interp, a=A.a_interp)
    env.functions.add("openaerostruct.common.atmos_comp (tables and interpolants)")

    def relations(h):
        T, P, rho, a = (float(np.asarray(cols[k](h)).reshape(-1)[0]) for k in ("T", "P", "rho", "a"))
        return a * a / (gam * R * T) - 1, 144 * P / (rho * R * T) - 1

    bad_a, bad_p = [], []
    for h in alt:
        ea, ep = relations(h)
        if abs(ea) > 1e-3:
            bad_a.append((h, round(ea, 5)))
        if abs(ep) > 2e-3:
            bad_p.append((h, round(ep, 5)))
    env.holds("C17", "speed of sound: a^2 == gamma R T at every table node (0.1 %)", not bad_a, "altitude ft, relative error: %s" % bad_a[:4])
    env.holds("C17", "ideal gas: P == rho R T at every table node (0.2 %)", not bad_p, "altitude ft, relative error: %s" % bad_p[:4])
    mid = 0.5 * (alt[1:] + alt[:-1])
    bm = [(h, round(e, 5)) for h in mid for e in relations(h) if abs(e) > 5e-3]
    env.holds("C17", "speed of sound and ideal gas hold at the mid-points between nodes (0.5 %; sampled, interpolation error included)",
              not bm, "altitude ft, relative error: %s" % bm[:4])
    for nm in ("P", "rho"):
        v = np.asarray(getattr(d, nm), dtype=float)
        k = [float(alt[i + 1]) for i in range(len(v) - 1) if not v[i + 1] < v[i]]
        env.holds("C17", "tabulated %s decreases strictly with altitude" % nm, not k, "not decreasing at %s ft" % k[:4])
    node_ok = all(abs(float(np.asarray(cols[k](h)).reshape(-1)[0]) - float(np.asarray(getattr(d, k))[i])) <= 1e-9 * abs(float(np.asarray(getattr(d, k))[i]))
                  for k in cols for i, h in enumerate(alt))
    env.holds("C17", "the interpolants reproduce the table at its nodes", node_ok)
    # the same relations on what the component hands on, in the units it declares (read through OpenMDAO's unit conversion, as
    # any consumer of the outputs does): SI values at every table node
    import openmdao.api as om
    from openmdao.utils.units import convert_units
    from .. import sx
    with sx.unpatched():
        p = om.Problem(reports=False)
        p.model.add_subsystem("atmos", A.AtmosComp(), promotes=["*"])
        p.setup()
        meta = p.model._var_allprocs_abs2meta["output"]
        units = {k.rsplit(".", 1)[-1]: v["units"] for k, v in meta.items() if k.startswith("atmos.")}
        in_units = p.model._var_allprocs_abs2meta["input"]["atmos.altitude"]["units"]
        bad = []
        for h in alt[::3]:
            p.set_val("altitude", convert_units(float(h), "ft", in_units))
            p.run_model()
            si = {k: float(convert_units(np.asarray(p.get_val(k)).reshape(-1)[0], units[k], u)) for k, u in
                  (("T", "K"), ("P", "Pa"), ("rho", "kg/m**3"), ("speed_of_sound", "m/s"))}
            e1 = si["P"] / (si["rho"] * 287.05 * si["T"]) - 1
            e2 = si["speed_of_sound"] ** 2 / (1.4 * 287.05 * si["T"]) - 1
            if abs(e1) > 3e-3 or abs(e2) > 2e-3:
                bad.append((float(h), round(e1, 4), round(e2, 4)))
    env.holds("C17", "atmosphere outputs in their declared units (converted to SI): P == rho R T and a^2 == gamma R T at every third table node (0.3 %)",
              not bad, "altitude ft, ideal-gas error, speed-of-sound error: %s" % bad[:3])
    env.assumptions.add("atmosphere: consistency between table nodes is sampled at mid-points only (Akima interpolation of data)")


@job("c17.total_performance_wiring", ("C17",), cfgs=[dict(nsurf=1, user_sref=False), dict(nsurf=2, user_sref=True), dict(nsurf=2, user_sref=False, _tier=T)])
def total_performance_wiring(env, nsurf, user_sref):
    """one quantity, one value: inside the real TotalPerformance group every component that takes the reference area, the
    dynamic-pressure inputs, the weights, the lift and drag coefficients or the fuel burn reads it from the same source
    (the user's reference area when one is specified, the summed area otherwise) - so that L_equals_W, L, D, CM and the
    fuel burn are stated about the same aircraft"""
    import openmdao.api as om
    import warnings
    from .c01_components import two_surfaces
    surfs = two_surfaces(dict(nx=2, ny=2, symmetry=True, side="left", nsurf=nsurf, tail_sym=True))
    p = om.Problem(reports=False)
    p.model.add_subsystem("tp", cls("functionals.total_performance.TotalPerformance")(surfaces=surfs, user_specified_Sref=user_sref,
                                                                                        internally_connect_fuelburn=True), promotes=["*"])
    import re as _re
    with warnings.catch_warnings():
        warnings.simplefilter("ignore")
        for _ in range(30):
            # promoted inputs with different declared defaults need one default each (what a user script does)
            try:
                p.setup()
                p.final_setup()
                break
            except RuntimeError as e:
                names = _re.findall(r"inputs promoted to '([^']+)' have different", str(e))
                if not names:
                    raise
                for nm_ in names:
                    p.model.set_input_defaults(nm_, val=1.0)
    conn = p.model._conn_global_abs_in2out
    by = {}
    for tgt, src in conn.items():
        by.setdefault(tgt.rsplit(".", 1)[-1], {}).setdefault(src, []).append(tgt)
    shared = ["S_ref_total", "rho", "v", "W0", "load_factor", "CL", "CD", "fuelburn", "R", "CT", "speed_of_sound", "Mach_number", "cg"]
    shared += [s["name"] + sfx for s in surfs for sfx in ("_structural_mass", "_S_ref", "_cg_location")]
    seen = 0
    for nm in shared:
        srcs = by.get(nm, {})
        if not srcs:
            continue
        seen += 1
        env.holds("C17", "TotalPerformance: every component reads %s from one source" % nm, len(srcs) == 1,
                  "; ".join("%s <- %s" % (sorted(t)[0], s_) for s_, t in srcs.items()))
    src = list(by.get("S_ref_total", {}))
    if user_sref:
        env.holds("C17", "the reference area is the user's when one is specified", len(src) == 1 and src[0].startswith("_auto_ivc"), str(src))
    else:
        env.holds("C17", "the reference area is the summed area otherwise", len(src) == 1 and src[0].endswith("sum_areas.S_ref_total"), str(src))
    env.holds("C17", "the wiring scan saw the shared quantities", seen >= 8, "%d" % seen)
