"""C09: the compressibility correction implements Prandtl-Glauert and is exact at Mach 0."""
import numpy as np
from ..runner import job
from .. import core
from .. import gsx, term as S, spshim
from ..surfaces import surface
from .c01_components import cls, two_surfaces, T
from .c06 import RG, base_inputs, surfaces_for

RG9 = [(r"Mach", 0.05, 0.94)] + RG         # the whole subsonic range of the statement (witnesses on Mach-dependent branches)


def wind_matrix(env, alpha, beta):
    """rotation taking body axes to wind axes (x_w along the free stream (ca cb, -sb, sa cb)); from the statement:
    'the geometry rotated into the wind frame'"""
    xp = env.xp
    ca, sa, cb, sb = xp.cos(alpha), xp.sin(alpha), xp.cos(beta), xp.sin(beta)
    z = 0 * ca
    rows = [[cb * ca, -sb, cb * sa], [sb * ca, cb, sb * sa], [-sa, z, ca]]
    Q = np.empty((3, 3), dtype=object if env.sym else float)
    for i in range(3):
        for j in range(3):
            Q[i, j] = rows[i][j]
    return Q


def mm(env, Q, x):
    """apply matrix Q to the last axis of x"""
    x = np.asarray(x)
    out = np.empty(x.shape, dtype=object if env.sym else float)
    for idx in np.ndindex(*x.shape[:-1]):
        for i in range(3):
            out[idx + (i,)] = sum(Q[i, j] * x[idx + (j,)] for j in range(3))
    return out


@job("c09.components", ("C09",), cfgs=[dict(nx=2, ny=3, symmetry=True, side="left", nsurf=1), dict(nx=2, ny=2, symmetry=False, nsurf=2, _tier=T)], ranges=RG9, cost=10)
def components(env, **cfg):
    xp = env.xp
    surfs = two_surfaces(cfg)
    rt = env.comp("rt", lambda: cls("aerodynamics.pg_wind_rotation.RotateToWindFrame")(surfaces=surfs, rotational=True))
    rf = env.comp("rf", lambda: cls("aerodynamics.pg_wind_rotation.RotateFromWindFrame")(surfaces=surfs))
    st = env.comp("st", lambda: cls("aerodynamics.pg_scale.ScaleToPrandtlGlauert")(surfaces=surfs, rotational=True))
    sf = env.comp("sf", lambda: cls("aerodynamics.pg_scale.ScaleFromPrandtlGlauert")(surfaces=surfs))
    ins = rt.inputs()
    a = np.asarray(ins["alpha"]).reshape(-1)[0]
    b = np.asarray(ins["beta"]).reshape(-1)[0]
    env.holds("C09", "wind-frame rotations take alpha and beta in radians (the group converts degrees)", rt.csx.units["alpha"] == "rad" and rt.csx.units["beta"] == "rad")
    Q = wind_matrix(env, a, b)
    QQt = np.array([[sum(Q[i, k] * Q[j, k] for k in range(3)) for j in range(3)] for i in range(3)], dtype=object if env.sym else float)
    env.eq("C09", "wind-frame matrix is orthogonal (Q Q^T == I)", QQt, np.eye(3))
    o = rt.compute(ins)
    for n in rt.out_names:
        src = n.replace("_w_frame", "")
        env.eq("C09", "RotateToWindFrame: %s == Q . %s" % (n, src), o[n], mm(env, Q, ins[src]))
    fi = rf.inputs(alpha=ins["alpha"], beta=ins["beta"])
    fo = rf.compute(fi)
    for n in rf.out_names:
        env.eq("C09", "RotateFromWindFrame: %s == Q^T . (wind-frame forces)" % n, fo[n], mm(env, Q.T, fi[n + "_w_frame"]))
    # Prandtl-Glauert stretching: x unchanged, y and z multiplied by B = sqrt(1 - M^2)
    si = st.inputs()
    M = np.asarray(si["Mach_number"]).reshape(-1)[0]
    B = xp.sqrt(1 - M * M)
    gi = sf.inputs(Mach_number=si["Mach_number"])
    stretch = np.array([1, B, B], dtype=object if env.sym else float)
    # every branch the scaling components may take on the Mach number is explored (the statement is for all 0 <= M < 0.95)
    for path, (so, go) in env.explore(lambda: (st.compute(si), sf.compute(gi))):
        tag = (" @path(%s)" % ";".join("%s=%s" % (repr(c)[:50], "T" if bb else "F") for c, bb in path)) if path else ""
        for n in st.out_names:
            src = n.replace("_pg", "_w_frame")
            if "normals" in n:
                # normals transform with the inverse transpose of the stretch, up to a common factor: (B nx, ny, nz)
                env.eq("C09", "ScaleToPG: %s == (B nx, ny, nz) (normal of the stretched geometry up to scale)%s" % (n, tag), so[n],
                       si[src] * np.array([B, 1, 1], dtype=object if env.sym else float))
            elif "rotational_velocities" in n:
                # documented rule for velocities in the stretched domain: (B^2 vx, B vy, B vz) - the rotational velocity field
                # omega' x (r' - cg') of the stretched geometry r' = (x, B y, B z) turning at omega' = (wx, B wy, B wz)
                env.eq("C09", "ScaleToPG: %s == (B^2 vx, B vy, B vz) (velocity of the stretched geometry turning at (wx, B wy, B wz))%s" % (n, tag),
                       so[n], si[src] * np.array([B * B, B, B], dtype=object if env.sym else float))
            else:
                env.eq("C09", "ScaleToPG: %s: y and z stretched by B = sqrt(1 - M^2)%s" % (n, tag), so[n], si[src] * stretch)
        for n in sf.out_names:
            env.eq("C09", "ScaleFromPG: %s == (Fx / B^4, Fy / B^3, Fz / B^3)%s" % (n, tag), go[n] * np.array([B ** 4, B ** 3, B ** 3], dtype=object if env.sym else float),
                   gi[n.replace("_w_frame", "_pg")])
    # the same on live components last evaluated at another Mach number or with other forces / geometry
    from .c16 import runs
    for lab, go in runs(env, "sf", sf.factory, gi):
        if not lab:
            continue
        for n in sf.out_names:
            env.eq("C09", "ScaleFromPG: %s == (Fx / B^4, Fy / B^3, Fz / B^3)%s" % (n, lab), go[n] * np.array([B ** 4, B ** 3, B ** 3], dtype=object if env.sym else float),
                   gi[n.replace("_w_frame", "_pg")])
    for lab, so in runs(env, "st", st.factory, si):
        if not lab:
            continue
        for n in st.out_names:
            if "normals" in n or "rotational_velocities" in n:
                continue
            env.eq("C09", "ScaleToPG: %s: y and z stretched by B = sqrt(1 - M^2)%s" % (n, lab), so[n], si[n.replace("_pg", "_w_frame")] * stretch)


@job("c09.pipeline", ("C09",), cfgs=[dict(nx=2, ny=3, symmetry=True, side="left", nsurf=1), dict(nx=2, ny=2, symmetry=False, nsurf=1),
                                      dict(nx=2, ny=2, symmetry=True, side="right", nsurf=2, tail_sym=False)], ranges=RG9, cost=40)
def pipeline(env, **cfg):
    """sectional forces of the compressible AeroPoint == rotate into the wind frame, stretch by B, solve the incompressible
    VLM (the real VLMStates group) at alpha = beta = 0, scale by 1/B^4, 1/B^3, rotate back"""
    xp = env.xp
    surfs = surfaces_for(cfg)
    if any(s["symmetry"] for s in surfs):
        zero_beta = True
    else:
        zero_beta = False
    gc = gsx.GroupSX(env, gsx.aero_model(surfs, compressible=True), key="C")

    def build_inc(model):
        import openmdao.api as om
        from openaerostruct.aerodynamics.states import VLMStates
        model.add_subsystem("st", VLMStates(surfaces=surfs), promotes=["*"])
        for nm, val, un in (("alpha", 0.0, "deg"), ("beta", 0.0, "deg"), ("v", 1.0, "m/s"), ("rho", 1.0, "kg/m**3")):
            model.set_input_defaults(nm, val=val, units=un)
    gi = gsx.GroupSX(env, build_inc, key="I")
    if env.sym:
        env.use_helpers("eval_mtx")
    given = base_inputs(env, gc, surfs)
    if zero_beta:
        given["beta"] = env.const(np.zeros(1))
    vc = gc.run(given)
    solc = list(gc.solves)
    deg = env.pi / 180
    a = np.asarray(given["alpha"]).reshape(-1)[0] * deg
    b = np.asarray(given["beta"]).reshape(-1)[0] * deg
    M = np.asarray(given["Mach_number"]).reshape(-1)[0]
    B = xp.sqrt(1 - M * M)
    Q = wind_matrix(env, a, b)
    stretch = np.array([1, B, B], dtype=object if env.sym else float)
    inc = dict(alpha=env.const(np.zeros(1)), beta=env.const(np.zeros(1)), v=given["v"], rho=given["rho"])
    for s in surfs:
        n = s["name"]
        inc[n + "_def_mesh"] = mm(env, Q, given[n + "_def_mesh"]) * stretch
        nrm = gc.get(vc, "ap.%s.normals" % n)
        inc[n + "_normals"] = mm(env, Q, nrm) * np.array([B, 1, 1], dtype=object if env.sym else float)
    if env.sym:
        vi = gi.run(inc, hints={"solve_matrix": lambda rec: np.asarray(solc[0]["x"], dtype=object).reshape(-1)})
        r1 = solc[0]
        A1 = r1["A"].T if r1["trans"] else r1["A"]
        res1 = spshim._mm(A1, np.asarray(r1["x"], dtype=object).reshape(-1)) - np.asarray(r1["b"], dtype=object).reshape(-1)
        env.eq("C09", "solve lemma: the circulations of the compressible solver solve the incompressible tangency system of the "
                      "rotated, stretched geometry at alpha = beta = 0", gi.solves[0]["residual_at_phi"], res1)
        env.assumptions.add("non-singular AIC matrix (uniqueness of the circulations)")
    else:
        vi = gi.run(inc)
    back = np.array([1 / B ** 4, 1 / B ** 3, 1 / B ** 3], dtype=object if env.sym else float)
    for s in surfs:
        n = s["name"]
        f_inc = gi.get(vi, n + "_sec_forces")
        want = mm(env, Q.T, f_inc * back)
        env.eq("C09", "compressible sectional forces == Q^T . diag(1/B^4, 1/B^3, 1/B^3) . incompressible forces of the transformed geometry [%s]" % n,
               gc.get(vc, "ap.aero_states.%s_sec_forces" % n), want)
    if env.sym:
        mvar = S.var_id(np.asarray(given["Mach_number"]).reshape(-1)[0])
        bad = [repr(c)[:60] for (k, c, b_) in S.PATH.taken if isinstance(c, S.SymBool) and mvar in S.term_deps(c.val)]
        env.holds("C09", "no branch of the compressible chain depends on the Mach number (results vary continuously with Mach below 1)", not bad, str(bad))


@job("c09.kernel_rotation", ("C09",), ranges=[(r"^(r1|r2|r)", -1.5, 1.5), (r"alpha", 0.05, 0.3)], cost=5)
def kernel_rotation(env):
    """rotation lemma at kernel level (full real bodies): for the wind-frame rotation Q(alpha, 0) about the y axis,
    f(Q r1, Q r2) == Q f(r1, r2) and semi(Q u, Q r) == Q semi(u, r), with Q (cos a, 0, sin a) == e_x"""
    import openaerostruct.aerodynamics.eval_mtx as E
    xp = env.xp
    env.indicator_branch = 1
    env.indicator_only = core.kernel_tol_mask          # only the documented |den| <= 1e-10 guard of the kernels is exempt
    a = env.var("alpha", ())
    Q = wind_matrix(env, a, 0 * a)
    r1, r2, r = env.var("r1", (3,)), env.var("r2", (3,)), env.var("r", (3,))
    u = np.array([xp.cos(a), 0 * a, xp.sin(a)], dtype=object if env.sym else float)
    R = lambda x: mm(env, Q, x)
    env.eq("C09", "the wind-frame rotation takes the wake direction to the x axis", R(u), np.array([1, 0, 0]))
    env.eq("C09", "finite segment: f(Q r1, Q r2) == Q f(r1, r2)", env.call(E._compute_finite_vortex, R(r1), R(r2)), R(env.call(E._compute_finite_vortex, r1, r2)))
    env.eq("C09", "trailing leg: semi(Q u, Q r) == Q semi(u, r)", env.call(E._compute_semi_infinite_vortex, R(u), R(r)), R(env.call(E._compute_semi_infinite_vortex, u, r)))


@job("c09.mach0", ("C09",), cfgs=[dict(nx=2, ny=3, symmetry=True, side="left", nsurf=1), dict(nx=2, ny=2, symmetry=False, nsurf=1),
                                   dict(nx=2, ny=2, symmetry=True, side="left", nsurf=1, rotational=True),
                                   dict(nx=2, ny=2, symmetry=True, side="right", nsurf=2, tail_sym=False)], ranges=RG9, cost=40)
def mach0(env, rotational=False, **cfg):
    """at Mach 0 and zero sideslip the compressible and the incompressible solvers coincide.  The incompressible run is
    expressed in the wind frame through the kernel rotation lemma (c09.kernel_rotation), where the compressible solver
    works; the linear solve is carried by the residual-identity lemma"""
    from .. import helpers
    surfs = surfaces_for(cfg)
    gc = gsx.GroupSX(env, gsx.aero_model(surfs, compressible=True, rotational=rotational), key="C")
    gi = gsx.GroupSX(env, gsx.aero_model(surfs, compressible=False, rotational=rotational), key="I")
    given = base_inputs(env, gc, surfs)
    given["beta"] = env.const(np.zeros(1))
    given["Mach_number"] = env.const(np.zeros(1))
    if env.sym:
        env.use_helpers("eval_mtx")
        a = np.asarray(given["alpha"]).reshape(-1)[0] * env.pi / 180
        Q = wind_matrix(env, a, 0 * a)
        helpers.FRAME[0] = (Q, Q.T)
        vi = gi.run(given)
        helpers.FRAME[0] = None
        soli = list(gi.solves)
        vc = gc.run(given, hints={"solve_matrix": lambda rec: np.asarray(soli[0]["x"], dtype=object).reshape(-1)})
        r1 = soli[0]
        A1 = r1["A"].T if r1["trans"] else r1["A"]
        res1 = spshim._mm(A1, np.asarray(r1["x"], dtype=object).reshape(-1)) - np.asarray(r1["b"], dtype=object).reshape(-1)
        env.eq("C09", "Mach 0: the incompressible circulations solve the compressible solver's system", gc.solves[0]["residual_at_phi"], res1)
        env.assumptions.add("non-singular AIC matrix (uniqueness of the circulations)")
    else:
        vi = gi.run(given)
        vc = gc.run(given)
    for s in surfs:
        n = s["name"]
        env.eq("C09", "Mach 0, zero sideslip: compressible sectional forces == incompressible sectional forces [%s]" % n,
               gc.get(vc, "ap.aero_states.%s_sec_forces" % n), gi.get(vi, "ap.aero_states.%s_sec_forces" % n))
    for q in ("CL", "CD", "CM"):
        env.eq("C09", "Mach 0, zero sideslip: %s coincide" % q, gc.get(vc, "ap." + q), gi.get(vi, "ap." + q))
