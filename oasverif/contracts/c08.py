"""C08: ground effect equals the method of images; rejected at set-up for surfaces without symmetry.
Not decided here: convergence to the free-air values as the height grows (a limit, not an identity)."""
import numpy as np
from ..runner import job
from .. import core
from .. import gsx, term as S, helpers
from ..specs import vlm
from ..surfaces import surface
from .c01_components import cls, T
from .c06 import RG, base_inputs
from .c05 import _kernels


@job("c08.vortex_mesh", ("C08",), cfgs=[dict(specs=(("wing", 2, 2, "left"),)), dict(specs=(("wing", 3, 2, "left"),)), dict(specs=(("wing", 3, 3, "right"),)),
                                         dict(specs=(("wing", 2, 2, "left"), ("tail", 3, 2, "right"))),
                                         dict(specs=(("wing", 4, 3, "left"),), _tier=T)],
     ranges=RG + [(r"height_agl", 5.0, 20.0)], cost=5)
def vortex_mesh(env, specs):
    """the image half of the vortex lattice of every surface is the reflection of its real half across the ground plane -
    on a fresh component and on a live one that was last evaluated at another angle of attack, height or mesh"""
    from .c16 import runs
    xp = env.xp
    surfs = [surface(name=n, nx=nx, ny=ny, symmetry=True, side=side, groundplane=True, xshift=3.0 * k) for k, (n, nx, ny, side) in enumerate(specs)]
    fac = lambda: cls("aerodynamics.vortex_mesh.VortexMesh")(surfaces=surfs)
    h = env.comp("vm", fac)
    ins = h.inputs()
    alpha = np.asarray(ins["alpha"]).reshape(-1)[0]              # VortexMesh takes alpha in radians
    hh = np.asarray(ins["height_agl"]).reshape(-1)[0]
    env.holds("C08", "VortexMesh declares alpha in radians (the group converts the user's degrees)", h.csx.units["alpha"] == "rad", str(h.csx.units["alpha"]))
    surfs0 = [dict(s, groundplane=False) for s in surfs]
    h0 = env.comp("vm0", lambda: cls("aerodynamics.vortex_mesh.VortexMesh")(surfaces=surfs0))
    out0 = h0.compute({k: v for k, v in ins.items() if k.endswith("_def_mesh")})
    for lab, o in runs(env, "vm", fac, ins):
        for sf in surfs:
            n, nx = sf["name"], sf["mesh"].shape[0]
            out = o[n + "_vortex_mesh"]
            env.eq("C08", "image lattice == reflection of the real lattice across the plane parallel to the free stream at height_agl below the origin [%s]%s" % (n, lab),
                   out[nx:], vlm.reflect_ground(xp, out[:nx], alpha, hh))
            # the real half is the quarter-chord lattice of the mirrored-in-y mesh (same as without ground effect)
            env.eq("C08", "real lattice is unchanged by enabling ground effect [%s]%s" % (n, lab), out[:nx], out0[n + "_vortex_mesh"])


@job("c08.images", ("C08",), cfgs=[dict(specs=(("wing", 2, 2, "left"),)), dict(specs=(("wing", 3, 2, "left"),)),
                                    dict(specs=(("wing", 2, 3, "left"), ("tail", 2, 2, "right"))),
                                    dict(specs=(("wing", 2, 3, "right"), ("tail", 3, 2, "left")), _tier=T)],
     ranges=RG + [(r"height_agl", 5.0, 20.0)], cost=40)
def images(env, specs):
    """the real AeroPoint group with ground effect assembles the tangency system and the panel forces of the reference
    lattice in which every ring is accompanied by its mirror image across the ground plane with opposite strength"""
    xp = env.xp
    surfs = [surface(name=n, nx=nx, ny=ny, symmetry=True, side=sd, groundplane=True, with_viscous=False, with_wave=False,
                     xshift=3.0 * k) for k, (n, nx, ny, sd) in enumerate(specs)]
    g = gsx.GroupSX(env, gsx.aero_model(surfs))
    seg, semi = _kernels(env)
    given = base_inputs(env, g, surfs)
    given["beta"] = env.const(np.zeros(1))
    vals = g.run(given)
    meshes = [given[s["name"] + "_def_mesh"] for s in surfs]
    sp = [vlm.Surface(m, True) for m in meshes]
    lefts = [sd == "left" for (_, _, _, sd) in specs]
    deg = env.pi / 180
    alpha = np.asarray(given["alpha"]).reshape(-1)[0] * deg
    v = np.asarray(given["v"]).reshape(-1)[0]
    rho = np.asarray(given["rho"]).reshape(-1)[0]
    hh = np.asarray(given["height_agl"]).reshape(-1)[0]
    ref = vlm.assemble(xp, sp, lefts, alpha, 0 * alpha, v, seg, semi, ground_h=hh)
    normals = np.concatenate([np.asarray(g.get(vals, "ap.%s.normals" % s["name"])).reshape(-1, 3) for s in surfs], axis=0)
    A, b = vlm.tangency_system(xp, ref, normals)
    if env.sym:
        rec = g.solves[0]
        As = rec["A"].T if rec["trans"] else rec["A"]
        env.eq("C08", "ground effect: system matrix == (real rings - image rings) . normal", As, np.array(A, dtype=object))
        env.eq("C08", "ground effect: right-hand side == -free stream . normal", np.asarray(rec["b"], dtype=object).reshape(-1), np.array(b, dtype=object))
        gamma = np.asarray(rec["x"], dtype=object).reshape(-1)
    else:
        gamma = np.asarray(g.get(vals, "ap.circulations")).reshape(-1)
        res = np.array(A, dtype=float).dot(gamma) - np.array(b, dtype=float)
        env.eq("C08", "ground effect: system matrix == (real rings - image rings) . normal", res, 0 * res)
    F, gh = vlm.panel_forces(xp, ref, sp, gamma, rho)
    k = 0
    for s in surfs:
        f = np.asarray(g.get(vals, "ap.aero_states.%s_sec_forces" % s["name"])).reshape(-1, 3)
        for q in range(f.shape[0]):
            env.eq("C08", "ground effect: panel force == reference with image system [%s %d]" % (s["name"], q), f[q], F[k])
            k += 1


@job("c08.kernel_reflection", ("C08",), ranges=[(r"^(r1|r2|r)", -1.5, 1.5), (r"alpha", 0.05, 0.3)], cost=5)
def kernel_reflection(env):
    """image-system lemma at kernel level: for the reflection R = I - 2 n n^T across any plane with unit normal
    n = (sin a, 0, -cos a) (parallel to the free stream u = (cos a, 0, sin a)), f(R r1, R r2) == -R f(r1, r2) and
    semi(u, R r) == -R semi(u, r): the flow induced at the image of a point by the image rings of opposite strength is
    the reflection of the flow induced at the point by the real rings; the free stream is parallel to the plane, hence the
    image surfaces satisfy tangency whenever the real ones do"""
    import openaerostruct.aerodynamics.eval_mtx as E
    xp = env.xp
    env.indicator_branch = 1
    env.indicator_only = core.kernel_tol_mask          # only the documented |den| <= 1e-10 guard of the kernels is exempt
    a = env.var("alpha", ())
    sa, ca = xp.sin(a), xp.cos(a)
    n = np.array([sa, 0 * sa, -ca], dtype=object if env.sym else float)
    u = np.array([ca, 0 * sa, sa], dtype=object if env.sym else float)

    def R(x):
        return x - 2 * (x * n).sum() * n
    r1 = env.var("r1", (3,))
    r2 = env.var("r2", (3,))
    r = env.var("r", (3,))
    env.eq("C08", "free stream is parallel to the ground plane (u . n == 0)", (u * n).sum(), 0)
    env.eq("C08", "finite segment: f(R r1, R r2) == -R f(r1, r2)", env.call(E._compute_finite_vortex, R(r1), R(r2)), -R(env.call(E._compute_finite_vortex, r1, r2)))
    env.eq("C08", "trailing leg: semi(u, R r) == -R semi(u, r)", env.call(E._compute_semi_infinite_vortex, u, R(r)), -R(env.call(E._compute_semi_infinite_vortex, u, r)))


@job("c08.rejection", ("C08", "C20"))
def rejection(env):
    """enabling ground effect on a surface without symmetry is rejected at set-up (exhaustive over the flag combinations of
    one- and two-surface lists, on the real VortexMesh and on the real AeroPoint model)"""
    import itertools
    import openmdao.api as om
    for nsurf in (1, 2):
        for flags in itertools.product([(True, True), (True, False), (False, True), (False, False)], repeat=nsurf):
            surfs = [surface(name="s%d" % k, nx=2, ny=3, symmetry=sym, groundplane=gp, xshift=3.0 * k) for k, (sym, gp) in enumerate(flags)]
            should = any(gp and not sym for sym, gp in flags)
            for label, build in (("VortexMesh", lambda m: m.add_subsystem("vm", cls("aerodynamics.vortex_mesh.VortexMesh")(surfaces=surfs), promotes=["*"])),
                                 ("AeroPoint", gsx.aero_model(surfs))):
                raised = None
                try:
                    p = om.Problem(reports=False)
                    build(p.model)
                    p.setup()
                except ValueError as e:
                    raised = "ValueError"
                except Exception as e:
                    raised = type(e).__name__
                env.holds("C08,C20", "%s set-up raises ValueError iff some surface has ground effect without symmetry [flags %s]" % (label, flags),
                          (raised == "ValueError") == should and raised in (None, "ValueError"), "raised %s, expected %s" % (raised, should))


@job("c08.compressible_ground", ("C08", "C09"), cfgs=[dict(mach=0.3), dict(mach=0.75)], cost=5)
def compressible_ground(env, mach):
    """ground effect together with the Prandtl-Glauert solver: the configuration is either rejected at set-up (as the
    repository does: the compressible states group has no ground-height input) or, where a model accepts it, its forces equal
    those of the compressible free-air analysis of the wing together with its mirror image across the plane parallel to the free
    stream at the given height below the origin.  The second branch is a BOUNDED stand-in (one sampled input, floating point,
    1e-7 relative), not a proof; on a tree that rejects the configuration only the rejection is established."""
    import openmdao.api as om
    import warnings
    if not env.sym:
        return
    from .. import sx
    s = surface(name="wing", nx=3, ny=4, symmetry=True, side="left", groundplane=True, with_viscous=False, with_wave=False)
    alpha, h = 4.0, 1.7
    with sx.unpatched(), warnings.catch_warnings():
        warnings.simplefilter("ignore")
        p = om.Problem(reports=False)
        gsx.aero_model([s], compressible=True)(p.model)
        try:
            p.setup()
            p.final_setup()
        except Exception as e:
            env.holds("C08,C09", "compressible solver + ground effect: rejected at set-up or equal to the explicit image model",
                      True, "rejected: %s" % str(e)[:80])
            env.note("c08.compressible_ground: the tree rejects ground effect with the compressible solver at set-up (%s)" % type(e).__name__)
            return
        mesh = np.array(s["mesh"], dtype=float)
        mesh[:, :, 2] += 0.05 * mesh[:, :, 1] ** 2                     # some dihedral-like curvature: a general planform
        a = np.radians(alpha)
        n = np.array([np.sin(a), 0.0, -np.cos(a)])
        image = mesh - 2 * ((mesh - n * h) @ n)[:, :, None] * n
        for k_, v_ in (("alpha", alpha), ("height_agl", h), ("Mach_number", mach), ("v", 50.0), ("rho", 1.1), ("wing_def_mesh", mesh)):
            p.set_val(k_, v_)
        p.run_model()
        f_gp = np.array(p.get_val("ap.aero_states.wing_sec_forces"))
        s1 = dict(s, groundplane=False)
        s2 = dict(s1, name="image", mesh=image)
        q = om.Problem(reports=False)
        gsx.aero_model([s1, s2], compressible=True)(q.model)
        q.setup()
        for k_, v_ in (("alpha", alpha), ("Mach_number", mach), ("v", 50.0), ("rho", 1.1), ("wing_def_mesh", mesh), ("image_def_mesh", image)):
            q.set_val(k_, v_)
        q.run_model()
        f_img = np.array(q.get_val("ap.aero_states.wing_sec_forces"))
    dev = float(np.max(np.abs(f_gp - f_img))) / max(float(np.max(np.abs(f_img))), 1e-300)
    env.holds("C08,C09", "compressible solver + ground effect: rejected at set-up or equal to the explicit image model",
              dev <= 1e-7, "[bounded: one sampled input] accepted at set-up; panel forces differ from the wing + mirror image model by %.3g relative (Mach %.2f)" % (dev, mach))
    env.assumptions.add("c08.compressible_ground: the 'accepted' branch is a bounded numerical check (labelled bounded; not counted as proved)")
