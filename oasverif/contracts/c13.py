"""C13: geometry design variables act as documented; defaults leave the mesh unchanged.
Specs from the documentation / property statement.  Precondition from the quantifier: y increases spanwise (for a
symmetric surface the modelled half is the left one, root last)."""
import numpy as np
from ..runner import job
from .. import gsx
from .c01_components import cls, product, T, MESH_RANGES, _shape
from ..surfaces import surface, mesh as mkmesh

GT = "geometry.geometry_mesh_transformations."
SH = product([dict(nx=2, ny=3), dict(nx=3, ny=3, _tier=T), dict(nx=2, ny=5, _tier=T)], [dict(symmetry=True), dict(symmetry=False)],
             [dict(ref_axis_pos=0.25), dict(ref_axis_pos=0.0, _tier=T), dict(ref_axis_pos=1.0, _tier=T), dict(ref_axis_pos=0.6, _tier=T)])
RG = list(MESH_RANGES) + [(r"sweep|dihedral|twist", 2.0, 25.0), (r"taper", 0.3, 0.9), (r"chord", 0.5, 1.5), (r"span", 2.0, 6.0)]


def s0(x):
    return np.asarray(x).reshape(-1)[0]


def ref_axis(m, p):
    return p * m[-1] + (1 - p) * m[0]


def root_index(ny, symmetry):
    return ny - 1 if symmetry else (ny - 1) // 2


def dist_from_root(y, ny, symmetry):
    """|y - y_root| under the ordering precondition (y increasing spanwise)"""
    r = root_index(ny, symmetry)
    out = []
    for j in range(ny):
        out.append(y[r] - y[j] if j <= r else y[j] - y[r])
    return out


@job("c13.transformations", ("C13",), cfgs=SH, ranges=RG, cost=6)
def transformations(env, nx, ny, symmetry, ref_axis_pos):
    xp = env.xp
    shape = (nx, ny, 3)
    m = env.var("in_mesh", shape)
    # precondition on every input mesh (all generated / documented meshes): y is constant along each chordwise section
    for i in range(1, nx):
        m[i, :, 1] = m[0, :, 1]
    p = env.frac(int(round(ref_axis_pos * 100)), 100)
    ra = ref_axis(m, p)
    r = root_index(ny, symmetry)

    def comp(name, klass, **o):
        return env.comp(name, lambda: cls(GT + klass)(**o))

    # ---- Sweep: shear in x, linear in the spanwise distance from the root, positive = aft; y and z unchanged
    h = comp("sweep", "Sweep", val=0.0, mesh_shape=shape, symmetry=symmetry)
    a = env.var("sweep", (1,))
    out = h.compute(dict(sweep=a, in_mesh=m))["mesh"]
    tan = xp.tan(a[0] * env.pi / 180)
    d = dist_from_root(m[0, :, 1], ny, symmetry)
    want = m.copy()
    for j in range(ny):
        want[:, j, 0] = m[:, j, 0] + tan * d[j]
    env.eq("C13", "Sweep: x displaced by tan(sweep) * distance from the root (positive = aft), y and z unchanged", out, want)
    env.eq("C13", "defaults leave the mesh unchanged [Sweep at 0]", h.compute(dict(sweep=env.const(np.zeros(1)), in_mesh=m))["mesh"], m)
    # ---- Dihedral: shear in z
    h = comp("dihedral", "Dihedral", val=0.0, mesh_shape=shape, symmetry=symmetry)
    a = env.var("dihedral", (1,))
    out = h.compute(dict(dihedral=a, in_mesh=m))["mesh"]
    tan = xp.tan(a[0] * env.pi / 180)
    want = m.copy()
    for j in range(ny):
        want[:, j, 2] = m[:, j, 2] + tan * d[j]
    env.eq("C13", "Dihedral: z displaced by tan(dihedral) * distance from the root (positive = up), x and y unchanged", out, want)
    env.eq("C13", "defaults leave the mesh unchanged [Dihedral at 0]", h.compute(dict(dihedral=env.const(np.zeros(1)), in_mesh=m))["mesh"], m)
    # ---- Shears: translate each chordwise section
    for k, (nm, klass) in enumerate((("xshear", "ShearX"), ("yshear", "ShearY"), ("zshear", "ShearZ"))):
        h = comp(nm, klass, val=np.zeros(ny), mesh_shape=shape)
        sh = env.var(nm, (ny,))
        out = h.compute({nm: sh, "in_mesh": m})["mesh"]
        want = m.copy()
        want[:, :, k] = m[:, :, k] + sh.reshape(1, ny)
        env.eq("C13", "%s translates every chordwise section along one axis" % klass, out, want)
        env.eq("C13", "defaults leave the mesh unchanged [%s at 0]" % klass, h.compute({nm: env.const(np.zeros(ny)), "in_mesh": m})["mesh"], m)
    # ---- ScaleX: chords scaled about the reference axis
    h = comp("scalex", "ScaleX", val=np.ones(ny), mesh_shape=shape, ref_axis_pos=ref_axis_pos)
    c = env.var("chord", (ny,))
    out = h.compute(dict(chord=c, in_mesh=m))["mesh"]
    env.eq("C13", "ScaleX: chordwise offsets from the reference axis scaled by the chord factor, reference axis fixed",
           out, (m - ra) * c.reshape(1, ny, 1) + ra)
    env.eq("C13", "defaults leave the mesh unchanged [ScaleX at 1]", h.compute(dict(chord=env.const(np.ones(ny)), in_mesh=m))["mesh"], m)
    # ---- Stretch: tip-to-tip extent of the reference axis equals the span; x and z unchanged
    h = comp("stretch", "Stretch", val=1.0, mesh_shape=shape, symmetry=symmetry, ref_axis_pos=ref_axis_pos)
    b = env.var("span", (1,))
    out = h.compute(dict(span=b, in_mesh=m))["mesh"]
    ro = ref_axis(out, p)
    half = (2 if symmetry else 1)
    env.eq("C13", "Stretch: tip-to-tip extent of the reference axis equals the span (the modelled half is span/2)",
           (ro[-1, 1] - ro[0, 1]) * half, b[0])
    env.eq("C13", "Stretch: x and z unchanged", out[:, :, [0, 2]], m[:, :, [0, 2]])
    cur = (ra[-1, 1] - ra[0, 1]) * half
    env.eq("C13", "defaults leave the mesh unchanged [Stretch at the current span]",
           h.compute(dict(span=xp.array([cur]) if not env.sym else np.array([cur], dtype=object), in_mesh=m))["mesh"], m)
    # ---- Rotate (twist about the reference axis): chord length preserved, reference axis fixed
    h = comp("rotate", "Rotate", val=np.zeros(ny), mesh_shape=shape, symmetry=symmetry, ref_axis_pos=ref_axis_pos)
    tw = env.var("twist", (ny,))
    out = h.compute(dict(twist=tw, in_mesh=m))["mesh"]
    cv_in = m[-1] - m[0]
    cv_out = out[-1] - out[0]
    env.eq("C13", "twist preserves the chord length of every section", (cv_out * cv_out).sum(axis=1), (cv_in * cv_in).sum(axis=1))
    env.eq("C13", "twist acts about the reference axis (the axis itself does not move)", ref_axis(out, p), ra)
    z = h.compute(dict(twist=env.const(np.zeros(ny)), in_mesh=m))["mesh"]
    env.eq("C13", "defaults leave the mesh unchanged [Rotate at zero twist, general mesh]", z, m)
    # the same for meshes whose chords are parallel to x (flat, any dihedral / sweep)
    mf = m.copy()
    for i in range(1, nx):
        mf[i, :, 1] = m[0, :, 1]
        mf[i, :, 2] = m[0, :, 2]
    env.eq("C13", "defaults leave the mesh unchanged [Rotate at zero twist, chords parallel to x]",
           h.compute(dict(twist=env.const(np.zeros(ny)), in_mesh=mf))["mesh"], mf)


@job("c13.taper", ("C13",), cfgs=product([dict(nx=2, ny=3), dict(nx=3, ny=5, _tier=T)], [dict(symmetry=True), dict(symmetry=False)],
                                          [dict(ref_axis_pos=0.25), dict(ref_axis_pos=0.0), dict(ref_axis_pos=1.0, _tier=T)]), ranges=RG)
def taper(env, nx, ny, symmetry, ref_axis_pos):
    """Taper reads the mesh from its options: the clause is proved per concrete planform, for all taper ratios"""
    m = mkmesh(nx, ny, symmetry, "left")
    h = env.comp("taper", lambda: cls(GT + "Taper")(val=1.0, mesh=m.copy(), symmetry=symmetry, ref_axis_pos=ref_axis_pos))
    t = env.var("taper", (1,))
    out = h.compute(dict(taper=t))["mesh"]
    M = env.const(m)
    ra = ref_axis(M, env.frac(int(round(ref_axis_pos * 100)), 100))
    r = root_index(ny, symmetry)
    y = m[0, :, 1] * (1 - ref_axis_pos) + m[-1, :, 1] * ref_axis_pos
    tip = abs(y[0] - y[r])
    want = M.copy()
    for j in range(ny):
        eta = env.const(abs(y[j] - y[r]) / tip)                    # 0 at the root, 1 at the tip
        f = 1 + (t[0] - 1) * eta                                   # chord factor: linear from 1 (root) to taper (tip)
        want[:, j, :] = (M[:, j, :] - ra[j]) * f + ra[j]
    env.eq("C13", "Taper: chords scaled linearly from 1 at the root to the taper ratio at the tip, about the reference axis", out, want)
    env.eq("C13", "defaults leave the mesh unchanged [Taper at 1]", h.compute(dict(taper=env.const(np.ones(1))))["mesh"], M)


@job("c13.GeometryMesh_defaults", ("C13",), cfgs=product([dict(nx=3, ny=3), dict(nx=2, ny=3, _tier=T)], [dict(symmetry=True), dict(symmetry=False)],
                                                          [dict(camber=0.0), dict(camber=0.05)]) +
     # full-span surfaces that are not centred on y = 0 (a wing modelled from the centreline outwards, a far-off surface)
     [dict(nx=3, ny=3, symmetry=False, camber=0.0, yshift=2.0), dict(nx=2, ny=3, symmetry=False, camber=0.05, yshift=-3.5)], cost=4)
def geometry_mesh_defaults(env, nx, ny, symmetry, camber, yshift=0.0):
    """the real GeometryMesh group with no design variable given: its output mesh equals the mesh of the surface
    dictionary (flat and cambered wings with built-in dihedral and sweep)"""
    s = surface(nx=nx, ny=ny if symmetry else (ny if ny % 2 else ny + 1), symmetry=symmetry, camber=camber, yshift=yshift)
    for k in ("twist_cp", "thickness_cp"):
        s.pop(k, None)
    g = gsx.GroupSX(env, lambda mdl: mdl.add_subsystem("geom", cls("geometry.geometry_mesh.GeometryMesh")(surface=s), promotes=["*"]))
    names = [c.pathname.split(".")[-1] for c in g.comps if not c.pathname.startswith("_auto_ivc")]
    env.holds("C13", "GeometryMesh chains the nine transformations in the documented order",
              names == ["taper", "scale_x", "sweep", "shear_x", "stretch", "shear_y", "dihedral", "shear_z", "rotate"], str(names))
    given = {}
    for prom in g.prom_inputs():
        given[prom] = env.const(g.default_of(prom))              # every free input at its declared default
    vals = g.run(given)
    env.eq("C13", "all-default geometry group returns the surface's mesh unchanged [camber=%s]" % camber,
           g.get(vals, "mesh"), env.const(s["mesh"]))


@job("c13.GeometryMesh_ref_axis", ("C13",), cfgs=product([dict(nx=2, ny=3)], [dict(symmetry=True), dict(symmetry=False)],
                                                          [dict(ref_axis_pos=0.0), dict(ref_axis_pos=0.25), dict(ref_axis_pos=1.0)]),
     ranges=RG, cost=4)
def geometry_mesh_ref_axis(env, nx, ny, symmetry, ref_axis_pos):
    """the real GeometryMesh group driven through its promoted design variables: taper, chord scaling and twist act about
    the reference axis named in the surface dictionary (sections keep their reference-axis point and scale by
    taper(y) * chord factor); proved per concrete planform for all design-variable values"""
    s = surface(nx=nx, ny=ny, symmetry=symmetry, ref_axis_pos=ref_axis_pos)
    s.pop("thickness_cp", None)
    s["taper"] = 1.0
    s["chord_cp"] = np.ones(2)
    s["twist_cp"] = np.zeros(2)
    g = gsx.GroupSX(env, lambda mdl: mdl.add_subsystem("geom", cls("geometry.geometry_mesh.GeometryMesh")(surface=s), promotes=["*"]))
    nyy = s["mesh"].shape[1]
    t = env.var("taper", (1,))
    c = env.var("chord", (nyy,))
    tw = env.var("twist", (nyy,))
    given = {}
    for prom in g.prom_inputs():
        given[prom] = env.const(g.default_of(prom))
    given.update(taper=t, chord=c, twist=tw)
    out = g.get(g.run(given), "mesh")
    M = env.const(s["mesh"])
    p = env.frac(int(round(ref_axis_pos * 100)), 100)
    env.eq("C13", "group: taper, chord scaling and twist leave the documented reference axis in place", ref_axis(out, p), ref_axis(M, p))
    y = s["mesh"][0, :, 1] * (1 - ref_axis_pos) + s["mesh"][-1, :, 1] * ref_axis_pos
    r = root_index(nyy, symmetry)
    tip = abs(y[0] - y[r])
    cv_in = M[-1] - M[0]
    cv_out = out[-1] - out[0]
    f = [(1 + (t[0] - 1) * env.const(abs(y[j] - y[r]) / tip)) * c[j] for j in range(nyy)]
    env.eq("C13", "group: chord length of every section == original * taper(y) * chord factor (twist preserves it)",
           (cv_out * cv_out).sum(axis=1), (cv_in * cv_in).sum(axis=1) * np.array([fj * fj for fj in f], dtype=object if env.sym else float))


@job("c13.dictionary_reuse", ("C13", "C20"), cfgs=[dict(symmetry=True), dict(symmetry=False)])
def dictionary_reuse(env, symmetry):
    """planform study the way user scripts do it: one surface dictionary, reused (as is, or shallow-copied) for a second
    model with another mesh.  Setting up the geometry groups leaves the dictionary's keys and values as the user wrote them,
    and the all-default geometry of the second model is again its own mesh (nothing of the first model is remembered in the
    dictionary)"""
    import copy
    import openmdao.api as om
    from ..surfaces import mesh as mkmesh
    ny = 3 if symmetry else 5
    s = surface(name="wing", nx=2, ny=ny, symmetry=symmetry)
    for k in ("twist_cp", "thickness_cp", "span"):
        s.pop(k, None)
    snap = copy.deepcopy(s)

    def same(a, b):
        if set(a) != set(b):
            return False
        return all(np.array_equal(np.asarray(a[k], dtype=object), np.asarray(b[k], dtype=object)) for k in a)
    outs = []
    for span in (4.0, 7.0):
        d = dict(s) if span != 4.0 else s                      # the second model works on a shallow copy of the same dictionary
        d["mesh"] = mkmesh(2, ny, symmetry, "left", span=span)
        want = d["mesh"].copy()
        p = om.Problem(reports=False)
        p.model.add_subsystem("geom", cls("geometry.geometry_group.Geometry")(surface=d), promotes=["*"])
        p.setup()
        p.run_model()
        outs.append((span, np.array(p.get_val("mesh")), want, d))
    snap["mesh"] = outs[0][2]
    env.holds("C13,C20", "geometry set-up leaves the user's dictionary as written (no key added, no value changed)", same(s, snap),
              "keys now %s" % sorted(set(s) ^ set(snap)))
    for span, got, want, d in outs:
        env.eq("C13", "all-default geometry returns the model's own mesh although the dictionary served another model before [span %s]" % span,
               got, want)


@job("c13.dv_flags", ("C13",), cfgs=[dict(symmetry=True), dict(symmetry=False, _tier=T)])
def dv_flags(env, symmetry):
    """the optional "<variable>_dv" switches of the geometry group: switching one variable's own default off (because another
    component drives it) leaves every other design variable at the value the surface dictionary gives - exhaustively, one
    switch at a time, over all geometric design variables (control-point and scalar ones)"""
    import warnings
    import openmdao.api as om
    ny = 3 if symmetry else 5
    base = surface(name="wing", nx=2, ny=ny, symmetry=symmetry)
    for k in ("thickness_cp",):
        base.pop(k, None)
    cps = dict(twist_cp=np.array([1.5, -0.5]), chord_cp=np.array([1.1, 0.9]), t_over_c_cp=np.array([0.11, 0.13]),
               xshear_cp=np.array([0.2, -0.1]), yshear_cp=np.array([0.05, 0.15]), zshear_cp=np.array([-0.2, 0.3]))
    scalars = dict(sweep=7.0, dihedral=3.0, taper=0.7, span=9.0)
    base.update(cps)
    base.update(scalars)
    names = list(cps) + list(scalars)
    for off in names:
        s = dict(base)
        s[off + "_dv"] = False
        p = om.Problem(reports=False)
        p.model.add_subsystem("geom", cls("geometry.geometry_group.Geometry")(surface=s), promotes=["*"])
        with warnings.catch_warnings():
            warnings.simplefilter("ignore")
            p.setup()
            p.final_setup()
        wrong = []
        for v in names:
            if v == off:
                continue
            try:
                got = np.asarray(p.get_val(v)).reshape(-1)
            except KeyError:
                wrong.append("%s: not an input of the group" % v)
                continue
            want = np.asarray(base[v], dtype=float).reshape(-1)
            if got.shape != want.shape or not np.allclose(got, want, rtol=1e-12, atol=0):
                wrong.append("%s = %s instead of %s" % (v, got.tolist(), want.tolist()))
        env.holds("C13", "with %s_dv switched off every other design variable starts from the dictionary's value" % off, not wrong, "; ".join(wrong[:4]))


@job("c13.spline_anchors", ("C13", "C10", "C15"), cfgs=[dict(ny=3), dict(ny=5)])
def spline_anchors(env, ny):
    """every control-point distribution of the geometry and structural groups (twist, chord, shears, thickness-to-chord, tube
    radius and thickness, wingbox skin and spar thickness) has its first control point at the tip and its last at the root -
    normalised span 0 and 1 - whether it is evaluated at the nodes or at the panel mid-points; the distribution then does not
    depend on the spanwise discretisation, and equal control points give the same distribution for every variable"""
    import openmdao.api as om
    import warnings
    from ..surfaces import surface
    from openaerostruct.geometry.geometry_group import Geometry
    from openaerostruct.structures.tube_group import TubeGroup
    from openaerostruct.structures.wingbox_group import WingboxGroup
    cp = np.array([0.1, 0.2, 0.3])
    st = surface(name="wing", nx=2, ny=ny, model="tube", extra=dict(twist_cp=cp, chord_cp=cp + 1, xshear_cp=cp, yshear_cp=cp, zshear_cp=cp,
                                                                   t_over_c_cp=cp, thickness_cp=cp / 10, radius_cp=cp))
    sw = surface(name="wing", nx=2, ny=ny, model="wingbox", extra=dict(spar_thickness_cp=cp / 10, skin_thickness_cp=cp / 10))
    # spanwise stations that are not evenly spaced (a cosine-like clustering towards the tip)
    for sd in (st, sw):
        y = np.array(sd["mesh"][0, :, 1], dtype=float)
        t = (y - y[0]) / (y[-1] - y[0])
        sd["mesh"] = np.array(sd["mesh"], dtype=float)
        sd["mesh"][:, :, 1] = y[0] + (y[-1] - y[0]) * t ** 1.7
    ys = np.array(st["mesh"][0, :, 1], dtype=float)
    xn = (ys - ys[0]) / (ys[-1] - ys[0])                  # normalised span of the stations: 0 at the tip, 1 at the root
    xm = 0.5 * (xn[1:] + xn[:-1])
    seen = 0
    for label, build in (("Geometry", lambda m: m.add_subsystem("g", Geometry(surface=st))),
                         ("TubeGroup", lambda m: m.add_subsystem("g", TubeGroup(surface=st))),
                         ("WingboxGroup", lambda m: m.add_subsystem("g", WingboxGroup(surface=sw)))):
        p = om.Problem(reports=False)
        build(p.model)
        with warnings.catch_warnings():
            warnings.simplefilter("ignore")
            p.setup()
        for c in p.model.system_iter(recurse=True, typ=om.SplineComp):
            x = np.asarray(c.options["x_interp_val"], dtype=float).reshape(-1)
            o = dict(c.options["interp_options"] or {})
            lo = float(o.get("x_cp_start", x[0]))
            hi = float(o.get("x_cp_end", x[-1]))
            seen += 1
            want = xn if len(x) == len(xn) else xm
            env.holds("C13,C10,C15", "%s.%s: the distribution is evaluated at the normalised span of the stations (nodes or panel mid-points), not at their index" % (label, c.name),
                      len(x) == len(want) and float(np.max(np.abs(x - want))) <= 1e-12, "evaluation points %s, stations %s" % (np.round(x, 4), np.round(want, 4)))
            env.holds("C13,C10,C15", "%s.%s: control points anchored at normalised span 0 and 1" % (label, c.name),
                      abs(lo) <= 1e-12 and abs(hi - 1) <= 1e-12, "first control point at %.4g, last at %.4g (evaluation points %.4g .. %.4g)" % (lo, hi, x[0], x[-1]))
    env.holds("C13", "the spline scan saw the distributions", seen >= 10, "%d spline components" % seen)
