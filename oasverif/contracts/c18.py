"""C18: viscous and wave drag estimates are well-behaved and discretisation-consistent.
The sign clauses (positivity, monotonic decrease with the Reynolds number, increase with thickness) are transcendental
inequalities in x / log(x)^2.58 that neither z3 nor cvc5 decides; they are discharged by interval branch-and-bound over the
admissible box (c18.viscous_signs).  Not decided: Reynolds monotonicity for laminar fractions strictly between 0.05 and 1."""
import numpy as np
from ..runner import job
from .. import gsx, term as S
from ..surfaces import surface
from .c01_components import cls, T

RG = [(r"^re", 1e5, 1e6), (r"Mach", 0.8, 0.9), (r"t_over_c|^tc$", 0.05, 0.2), (r"cos_sweep", 0.7, 1.0), (r"widths|lengths|chords|^b$|^c$", 0.7, 1.3),
      (r"S_ref", 2.0, 4.0), (r"CL", 0.3, 0.6)]


def s0(x):
    return np.asarray(x).reshape(-1)[0]


@job("c18.off", ("C18",), cfgs=[dict(symmetry=True), dict(symmetry=False)], ranges=RG)
def off(env, symmetry):
    """each estimate is exactly zero (value and partials) when its option is off"""
    s = surface(name="wing", nx=2, ny=3, symmetry=symmetry, with_viscous=False, with_wave=False)
    # the documented switch is the surface dictionary's "with_viscous" / "with_wave" (no component option is passed)
    v = env.comp("v", lambda: cls("aerodynamics.viscous_drag.ViscousDrag")(surface=s))
    w = env.comp("w", lambda: cls("aerodynamics.wave_drag.WaveDrag")(surface=s))
    for h, out in ((v, "CDv"), (w, "CDw")):
        ins = h.inputs()
        env.eq("C18", "%s == 0 when the option is off" % out, h.compute(ins)[out], 0)
        jac = h.partials(ins)
        for k in h.jinfo:
            env.eq("C18", "d%s/d%s == 0 when the option is off" % k, jac.dense(k), 0 * jac.dense(k))


@job("c18.wave", ("C18",), cfgs=[dict(ny=2, symmetry=False), dict(ny=3, symmetry=True), dict(ny=3, symmetry=False, _tier=T)],
     ranges=[(r"CL", -0.6, 0.6)] + RG, cost=20)             # lifting and down-loaded surfaces
def wave(env, ny, symmetry):
    """wave drag: zero up to the crest-critical Mach number; beyond it CDw = K (M - Mcrit)^4 with Mcrit from the Korn
    equation, hence non-negative, with value and first three Mach-derivatives vanishing at onset, and increasing in Mach and
    in lift (derivatives are positive multiples of (M - Mcrit)^3 on the supercritical path)"""
    xp = env.xp
    s = surface(name="wing", nx=2, ny=ny, symmetry=symmetry, with_wave=True)
    h = env.comp("w", lambda: cls("aerodynamics.wave_drag.WaveDrag")(surface=s))
    ins = h.inputs()
    M, CL = s0(ins["Mach_number"]), s0(ins["CL"])
    widths, chords, toc = ins["widths"], ins["chords"], ins["t_over_c"]
    cos_sweep = widths / ins["lengths_spanwise"]
    area = 0.5 * (chords[1:] + chords[:-1]) * widths
    cosav = (cos_sweep * area).sum() / area.sum()
    tocav = (toc * area).sum() / area.sum()
    ka = 0.95                                   # Korn technology factor for supercritical sections (documented)
    Mdd = ka / cosav - tocav / cosav ** 2 - CL / (10 * cosav ** 3)
    Mcrit = Mdd - (0.1 / 80.0) ** (1.0 / 3.0)
    K = 20 * (2 if symmetry else 1)
    for path, out in env.explore(lambda: h.compute(ins)["CDw"]):
        cdw = s0(out)
        superc = (isinstance(cdw, S.RF) and bool(cdw.p)) if env.sym else bool(M > Mcrit)
        if not superc:
            env.eq("C18", "wave drag is zero up to the crest-critical Mach number", cdw, 0)
            continue
        w = M - Mcrit
        env.eq("C18", "beyond the critical Mach number CDw == K (M - Mcrit)^4, Mcrit from the Korn equation (smooth onset: "
                      "value and first three Mach-derivatives vanish at M = Mcrit; CDw >= 0)", cdw, K * w ** 4)
        if env.sym:
            dM = S.diff(cdw, S.var_id(M))
            dCL = S.diff(cdw, S.var_id(CL))
            env.eq("C18", "dCDw/dMach == 4 K (M - Mcrit)^3  (> 0 on the supercritical path)", dM, 4 * K * w ** 3)
            env.eq("C18", "dCDw/dCL == 4 K (M - Mcrit)^3 / (10 cos^3)  (> 0 for positive average cos(sweep))", dCL * (10 * cosav ** 3), 4 * K * w ** 3)
    # on a live component last evaluated at another Mach number / lift (e.g. above the critical Mach number): the value is
    # again that of a fresh evaluation
    hl = env.comp("w.live", h.factory)
    insP = hl.inputs(tag="P.")

    def revisit():
        st = hl.out_store()
        hl.compute(insP, outs=st)
        return hl.compute(ins, outs=st)["CDw"]
    hf = env.comp("w.fresh2", h.factory)
    for path, cd_live in env.explore(revisit):
        tag = (" @path(%s)" % ";".join("T" if b else "F" for c, b in path)) if path else ""
        env.eq("C18", "wave drag after an earlier evaluation at another Mach number and lift equals that of a fresh evaluation" + tag,
               cd_live, hf.compute(ins)["CDw"])
    env.assumptions.add("wave drag monotonicity: average cos(sweep) > 0 (sweep below 90 degrees)")


@job("c18.wiring", ("C18",), cfgs=[dict(symmetry=True), dict(symmetry=False)])
def wiring(env, symmetry):
    """in the real per-surface functionals group the wave drag is driven by the surface's total lift coefficient
    (CL = CL1 + CL0) and the three drag components add up"""
    import openmdao.api as om
    s = surface(name="wing", nx=2, ny=3, symmetry=symmetry)
    p = om.Problem(reports=False)
    p.model.add_subsystem("f", cls("aerodynamics.functionals.VLMFunctionals")(surface=s), promotes=["*"])
    p.setup()
    p.final_setup()
    conn = p.model._conn_global_abs_in2out
    env.holds("C18", "wave drag reads the total lift coefficient of the surface (CL = CL1 + CL0)", conn.get("f.wavedrag.CL") == "f.CL.CL", str(conn.get("f.wavedrag.CL")))
    for tgt, src in (("f.CD.CDv", "f.viscousdrag.CDv"), ("f.CD.CDw", "f.wavedrag.CDw"), ("f.CD.CDi", "f.coeffs.CDi"), ("f.CL.CL1", "f.coeffs.CL1")):
        env.holds("C18", "functionals wiring: %s <- %s" % (tgt, src), conn.get(tgt) == src, str(conn.get(tgt)))
    tl = env.comp("tl", lambda: cls("aerodynamics.total_lift.TotalLift")(surface=s))
    i = tl.inputs()
    env.eq("C18", "surface CL == CL1 + CL0", s0(tl.compute(i)["CL"]), s0(i["CL1"]) + s["CL0"])
    # the drag build-up adds whatever each estimate reports, for every combination of the two switches (an estimate that is
    # off reports exactly zero: c18.off)
    for wv in (True, False):
        for ww in (True, False):
            sc = surface(name="wing", nx=2, ny=3, symmetry=symmetry, with_viscous=wv, with_wave=ww)
            td = env.comp("td.%s.%s" % (wv, ww), lambda sc=sc: cls("aerodynamics.total_drag.TotalDrag")(surface=sc))
            i = dict(td.inputs())
            if not wv:
                i["CDv"] = 0 * i["CDv"]             # an estimate that is off reports exactly zero (c18.off)
            if not ww:
                i["CDw"] = 0 * i["CDw"]
            env.eq("C18", "surface CD == CDi + CDv + CDw + CD0 [viscous %s, wave %s]" % (wv, ww),
                   s0(td.compute(i)["CD"]), s0(i["CDi"]) + s0(i["CDv"]) + s0(i["CDw"]) + sc["CD0"])
            jac = td.partials(i)
            for k, on in ((("CD", "CDi"), True), (("CD", "CDv"), wv), (("CD", "CDw"), ww)):
                if on:                  # (the derivative with respect to an estimate that is switched off is immaterial)
                    d = jac.dense(k) if k in td.jinfo else np.zeros((1, 1))
                    env.eq("C18", "d%s/d%s == 1 [viscous %s, wave %s]" % (k + (wv, ww)), d, 1 + 0 * d)


@job("c18.viscous", ("C18", "C20"), cfgs=[dict(k_lam=0.05), dict(k_lam=0.0), dict(k_lam=1.0), dict(k_lam=0.5, _tier=T)], ranges=RG, cost=10)
def viscous(env, k_lam):
    """viscous drag = sum over strips of 2 cf c w FF / S_ref with the form factor of Raymer 12.30 (increasing in t/c);
    the skin-friction coefficient is the laminar/turbulent blend for every laminar fraction in [0, 1], including the fully
    turbulent (0) and fully laminar (1) ends; outputs are defined (finite) for admissible inputs"""
    xp = env.xp
    s = surface(name="wing", nx=2, ny=3, symmetry=False, with_viscous=True, extra=dict(k_lam=k_lam))
    h = env.comp("v", lambda: cls("aerodynamics.viscous_drag.ViscousDrag")(surface=s, with_viscous=True))
    ins = h.inputs()
    cdv = s0(h.compute(ins)["CDv"])
    env.finite("C18,C20", "CDv is defined (finite) [k_lam = %s]" % k_lam, np.array([cdv], dtype=object if env.sym else float))
    re_, M = s0(ins["re"]), s0(ins["Mach_number"])
    c = 0.5 * (ins["lengths"][1:] + ins["lengths"][:-1])
    Rec = re_ * c
    cmp = (1 + 0.144 * M * M) ** 0.65
    turb = lambda R: 0.455 / xp.log10(R) ** 2.58 / cmp
    lam = lambda R: 1.328 / xp.sqrt(R)
    if k_lam == 0.0:
        cf = turb(Rec)
    elif k_lam == 1.0:
        cf = lam(Rec)
    else:
        # turbulent plate of the full chord minus the turbulent plate over the laminar run, plus the laminar run
        cf = turb(Rec) + k_lam * (lam(Rec * k_lam) - turb(Rec * k_lam))
    FF = 1.34 * M ** 0.18 * (1 + 0.6 * ins["t_over_c"] / s["c_max_t"] + 100 * ins["t_over_c"] ** 4) * (ins["widths"] / ins["lengths_spanwise"]) ** 0.28
    want = (2 * cf * c * ins["widths"] * FF).sum() / s0(ins["S_ref"])
    env.eq("C18", "CDv == sum of strip friction drags with the laminar/turbulent blend and the Raymer form factor [k_lam = %s]" % k_lam, cdv, want)
    env.note("form factor 1 + 0.6 (t/c)/(x/c)_max + 100 (t/c)^4 has positive coefficients: CDv increases with t/c wherever the strip friction coefficient is positive (hypothesis)")


@job("c18.discretisation", ("C18",), cfgs=[dict()], ranges=RG, cost=20)
def discretisation(env):
    """constant-chord, unswept, untwisted wing with uniform t/c: viscous and wave drag coefficients do not depend on the
    number of spanwise panels (the strip sums collapse to closed forms without ny)"""
    xp = env.xp
    b, c, tc = env.var("b", ()), env.var("c", ()), env.var("tc", ())
    re_, M, CL = env.var("re", (1,)), env.var("Mach_number", (1,)), env.var("CL", (1,))
    vals = {}
    for ny in (2, 3, 4):
        s = surface(name="wing", nx=2, ny=ny, symmetry=False, with_viscous=True, with_wave=True)
        n = ny - 1
        w = (b / n) * np.ones(n)
        common = dict(widths=w, lengths_spanwise=w, t_over_c=tc * np.ones(n), Mach_number=M)
        v = env.comp("v%d" % ny, lambda s=s: cls("aerodynamics.viscous_drag.ViscousDrag")(surface=s, with_viscous=True))
        cdv = s0(v.compute(dict(common, re=re_, S_ref=np.array([b * c], dtype=object if env.sym else float), lengths=c * np.ones(ny)))["CDv"])
        wv = env.comp("w%d" % ny, lambda s=s: cls("aerodynamics.wave_drag.WaveDrag")(surface=s))
        outs = []
        for path, o in env.explore(lambda: wv.compute(dict(common, CL=CL, chords=c * np.ones(ny)))["CDw"]):
            outs.append((tuple(bb for _, bb in path), s0(o)))
        vals[ny] = (cdv, outs)
    for ny in (3, 4):
        env.eq("C18", "viscous drag coefficient of a constant-chord wing: %d panels == 1 panel" % (ny - 1), vals[ny][0], vals[2][0])
        for (p1, o1), (p2, o2) in zip(vals[ny][1], vals[2][1]):
            env.eq("C18", "wave drag coefficient of a constant-chord wing: %d panels == 1 panel [path %s]" % (ny - 1, p1), o1, o2)


@job("c18.viscous_signs", ("C18",), cfgs=[dict(k_lam=0.0), dict(k_lam=1.0), dict(k_lam=0.05, re_mono=False), dict(k_lam=0.05, re_mono=True, _tier=T)], cost=10)
def viscous_signs(env, k_lam, re_mono=True):
    """sign obligations over the whole admissible box (interval branch-and-bound on the terms produced by the real compute and
    on their engine derivatives; one strip, so that CDv is a positive multiple of the strip friction coefficient):
    CDv > 0, d CDv / d re < 0, d CDv / d (t/c) > 0 for Reynolds numbers per length in [1e5, 1e8] (chord Reynolds numbers of the
    laminar run above 1e3) at unit chord (general chords by the scaling clause of C06), 0.05 <= M <= 0.95,
    0.02 <= t/c <= 0.3, sweep below 60 degrees.  Fully turbulent, fully laminar and the default laminar fraction 0.05 (its
    Reynolds monotonicity, about 140 s of interval arithmetic, in the thorough tier); for larger fractions strictly below 1 the
    blend (cf_lam - cf_turb)(k Re) k + cf_turb(Re) has cancelling terms whose enclosures did not certify within 20000 boxes
    (k_lam = 0.5: not decided)"""
    s = surface(name="wing", nx=2, ny=2, symmetry=False, with_viscous=True, extra=dict(k_lam=k_lam))
    h = env.comp("v", lambda: cls("aerodynamics.viscous_drag.ViscousDrag")(surface=s, with_viscous=True))
    ins = h.inputs()
    cs = env.var("cos_sweep", (1,))
    ins = dict(ins)
    ins["lengths_spanwise"] = ins["widths"] / cs
    # unit chord without loss of generality: c06.viscous_length_scaling proves that CDv depends on the lengths only through
    # the chord Reynolds number (lengths x k, area x k^2, Reynolds number per length / k leave it unchanged)
    ins["lengths"] = env.const(np.ones(2))
    outs = h.compute(ins)
    cdv = s0(outs["CDv"])
    box = [(r"^re", 1e5, 1e8), (r"Mach", 0.05, 0.95), (r"t_over_c", 0.02, 0.3), (r"widths", 0.5, 2.0), (r"lengths", 0.5, 2.0),
           (r"cos_sweep", 0.5, 1.0), (r"S_ref", 1.0, 10.0)]
    if not env.sym:
        return
    env.sign_on_box("C18", "viscous drag coefficient is positive on the admissible box [k_lam = %s]" % k_lam, [cdv], box, sign=1, max_boxes=20000)
    if re_mono:
        d_re = env.jac_of(np.array([cdv], dtype=object), ins["re"])
        env.sign_on_box("C18", "viscous drag decreases with the Reynolds number on the admissible box [k_lam = %s]" % k_lam, d_re.reshape(-1), box, sign=-1,
                        max_boxes=30000)
    if k_lam not in (0.0, 1.0):
        env.note("c18.viscous_signs: for the blended friction coefficient the thickness clause is not decided by enclosure; it follows "
                 "from CDv = (positive strip factor) x cf x FF(t/c) with cf > 0 (decided above) and FF increasing in t/c")
        return
    d_tc = env.jac_of(np.array([cdv], dtype=object), ins["t_over_c"])
    env.sign_on_box("C18", "viscous drag increases with the thickness ratio on the admissible box [k_lam = %s]" % k_lam, d_tc.reshape(-1), box, sign=1, max_boxes=20000)


@job("c18.sref_rows", ("C18", "C06", "C17"), cfgs=[dict(kind="projected", symmetry=True), dict(kind="projected", symmetry=False), dict(kind="wetted", symmetry=True)], cost=1)
def sref_rows(env, kind, symmetry):
    """the reference area the drag coefficients are divided by is the area of the whole planform, whatever the number of chordwise
    panels: refining a flat wing chordwise (2, 3 and 5 rows of nodes on the same leading and trailing edge) leaves S_ref
    unchanged, and S_ref equals the shoelace area of the outline (doubled for a symmetric half).  BOUNDED stand-in: the real
    component evaluated in floating point on 20 sampled planforms (the symbolic form is a sum of square roots of squares, which
    the normaliser does not decide); 1e-12 relative."""
    if not env.sym:
        return
    import random as _random
    from .. import sx
    rnd = _random.Random(env.seed + 5)
    ny = 4
    worst = {}
    for nx in (2, 3, 5):
        s = surface(name="wing", nx=nx, ny=ny, symmetry=symmetry, extra=dict(S_ref_type=kind))
        c = sx.CompSX(cls("aerodynamics.geometry.VLMGeometry")(surface=s))
        env.functions.add("openaerostruct.aerodynamics.geometry.VLMGeometry.compute")
        rnd2 = _random.Random(env.seed + 5)
        w = 0.0
        for t in range(20):
            ys = sorted(rnd2.uniform(-3, 0) for _ in range(ny - 1)) + [0.0] if symmetry else sorted(rnd2.uniform(-3, 3) for _ in range(ny))
            x_le = [rnd2.uniform(-0.5, 0.5) for _ in range(ny)]
            ch = [rnd2.uniform(0.5, 1.5) for _ in range(ny)]
            m = np.zeros((nx, ny, 3))
            for i in range(nx):
                for j in range(ny):
                    m[i, j] = (x_le[j] + ch[j] * i / (nx - 1.0), ys[j], 0.0)
            area = sum(0.5 * (ch[j] + ch[j + 1]) * (ys[j + 1] - ys[j]) for j in range(ny - 1)) * (2 if symmetry else 1)
            got = float(np.asarray(c.native_compute(dict(def_mesh=m))["S_ref"]).reshape(-1)[0])
            w = max(w, abs(got - area) / area)
        worst[nx] = w
        env.holds("C18,C06,C17", "[bounded: 20 sampled flat planforms] S_ref (%s) with %d chordwise rows of nodes == area of the planform outline" % (kind, nx),
                  w <= 1e-12, "largest relative deviation %.3g" % w)
    env.assumptions.add("c18.sref_rows is a bounded numerical check (labelled bounded; not counted as proved)")
