"""C16: mass, centre of gravity, inertial / fuel / point-mass / thrust loads are conserved.
Specs are written from the property statement (first principles), not from the code."""
import numpy as np
from ..runner import job
from .c01_components import cls, product, surf_of, T, POS, NODES
from .c11 import total_moment

G = 9.80665          # standard gravity, the documented constant of utils/constants.py

NYS = [dict(nx=2, ny=3), dict(nx=2, ny=2), dict(nx=2, ny=4, _tier=T)]
SYMS = [dict(symmetry=True, side="left"), dict(symmetry=False)]
R = tuple(POS) + tuple(NODES) + ((r"load_factor", 0.5, 2.5), (r"point_mass_locations", -2.0, 2.0), (r"point_masses|engine_thrusts", 10.0, 50.0),
                                 (r"fuel_vols|element_mass|fuel_mass|fuelburn", 0.5, 2.0))


def _len(xp, nodes):
    d = nodes[1:, :] - nodes[:-1, :]
    return xp.sqrt((d * d).sum(axis=1))


def _mid(nodes):
    return 0.5 * (nodes[1:, :] + nodes[:-1, :])


def runs(env, key, factory, ins):
    """(label, outputs at ins): a fresh instance, then live instances whose previous run differed from ins in one input
    (the statement is about every evaluation of a model, not only the first); branches on symbolic values met on the way
    are explored, one (label, outputs) per path"""
    def tag(path):
        return (" @path(%s)" % ";".join("%s=%s" % (repr(c)[:40], "T" if b else "F") for c, b in path)) if path else ""
    h = env.comp(key, factory)
    for path, o in env.explore(lambda: h.compute(ins)):
        yield tag(path), o
    if len(ins) < 2:
        return
    for k in ins:
        hk = env.comp("%s.after.%s" % (key, k), factory)
        prev = dict(ins)
        prev[k] = hk.inputs(tag="P.")[k]

        def revisit(hk=hk, prev=prev):
            store = hk.out_store()
            hk.compute(prev, outs=store)
            return hk.compute(ins, outs=store)
        for path, o in env.explore(revisit):
            yield " (instance last run with another %s)%s" % (k, tag(path)), o


@job("c16.Weight_CG", ("C16",), cfgs=product(NYS, SYMS, [dict(model="tube")]), ranges=R)
def weight_cg(env, **cfg):
    xp = env.xp
    s = surf_of(cfg)
    w = env.comp("w", lambda: cls("structures.weight.Weight")(surface=s))
    cg = env.comp("cg", lambda: cls("structures.structural_cg.StructuralCG")(surface=s))
    ins = w.inputs()
    o = w.compute(ins)
    nodes, A = ins["nodes"], ins["A"]
    L = _len(xp, nodes)
    em = env.frac(1) * s["mrho"] * s["wing_weight_ratio"] * A * L
    both = 2 if s["symmetry"] else 1
    env.eq("C16", "element mass == density * area * length * weight ratio", o["element_mass"], em)
    env.eq("C16", "structural mass == sum of element masses (both halves for a symmetric surface)",
           np.asarray(o["structural_mass"]).reshape(-1)[0], both * em.sum())
    c = cg.compute(dict(nodes=nodes, structural_mass=o["structural_mass"], element_mass=o["element_mass"]))["cg_location"]
    mid = _mid(nodes)
    cen = (mid * o["element_mass"].reshape(-1, 1)).sum(axis=0) / o["element_mass"].sum()
    if s["symmetry"]:
        # full aircraft centroid of a surface mirrored about y = 0: x and z of the half, y = 0
        want = xp.array([cen[0], 0 * cen[1], cen[2]])
    else:
        want = cen
    env.eq("C16", "cg == mass-weighted centroid of the element midpoints (both halves for a symmetric surface)", c, want)


@job("c16.StructureWeightLoads", ("C16",), cfgs=product(NYS, SYMS, [dict(model="tube")]), ranges=R, cost=3)
def struct_weight_loads(env, **cfg):
    xp = env.xp
    s = surf_of(cfg)
    h = env.comp("swl", lambda: cls("structures.wing_weight_loads.StructureWeightLoads")(surface=s))
    ins = h.inputs()
    nodes, em, n = ins["nodes"], ins["element_mass"], np.asarray(ins["load_factor"]).reshape(-1)[0]
    q = env.var("q", (3,))
    W = em * G * n                                      # weight of each modelled element
    Fz = xp.stack([0 * W, 0 * W, -W], axis=1)
    for lab, o in runs(env, "swl", h.factory, ins):
        loads = o["struct_weight_loads"]
        env.eq("C16", "structural-weight loads sum to -(modelled mass) g n in z" + lab, loads[:, :3].sum(axis=0), Fz.sum(axis=0))
        env.eq("C16", "structural-weight loads have the total moment of the element weights acting at the element midpoints" + lab,
               total_moment(xp, nodes, loads[:, :3], q, loads[:, 3:]), total_moment(xp, _mid(nodes), Fz, q))


@job("c16.FuelLoads", ("C16",), cfgs=product(NYS, SYMS, [dict(model="wingbox")]), ranges=R, cost=3)
def fuel_loads(env, **cfg):
    xp = env.xp
    s = surf_of(cfg)
    h = env.comp("fl", lambda: cls("structures.fuel_loads.FuelLoads")(surface=s))
    ins = h.inputs()
    nodes, vols = ins["nodes"], ins["fuel_vols"]
    n = np.asarray(ins["load_factor"]).reshape(-1)[0]
    fm = np.asarray(ins["fuel_mass"]).reshape(-1)[0]
    share = env.frac(1, 2) if s["symmetry"] else env.frac(1)
    Wtot = (fm + s["Wf_reserve"]) * G * n * share
    W = Wtot * vols / vols.sum()                         # distributed in proportion to the enclosed volumes
    Fz = xp.stack([0 * W, 0 * W, -W], axis=1)
    q = env.var("q", (3,))
    for lab, o in runs(env, "fl", h.factory, ins):
        loads = o["fuel_weight_loads"]
        env.eq("C16", "fuel loads sum to -(fuel + reserve) g n (half share for a symmetric surface)" + lab, loads[:, :3].sum(axis=0), Fz.sum(axis=0))
        env.eq("C16", "fuel loads have the total moment of the segment fuel weights acting at the element midpoints" + lab,
               total_moment(xp, nodes, loads[:, :3], q, loads[:, 3:]), total_moment(xp, _mid(nodes), Fz, q))


@job("c16.PointMassThrustLoads", ("C16",), cfgs=product(NYS, SYMS, [dict(model="tube")], [dict(n_point_masses=1), dict(n_point_masses=2)]),
     ranges=R, cost=3)
def point_mass_thrust(env, **cfg):
    xp = env.xp
    s = surf_of(cfg)
    pm = env.comp("pm", lambda: cls("structures.compute_point_mass_loads.ComputePointMassLoads")(surface=s))
    th = env.comp("th", lambda: cls("structures.compute_thrust_loads.ComputeThrustLoads")(surface=s))
    ins = pm.inputs()
    nodes, loc, m = ins["nodes"], ins["point_mass_locations"], ins["point_masses"]
    n = np.asarray(ins["load_factor"]).reshape(-1)[0]
    q = env.var("q", (3,))
    Fz = xp.stack([0 * m, 0 * m, -m * G * n], axis=1)
    for lab, o in runs(env, "pm", pm.factory, ins):
        env.eq("C16", "nodal weightings of every point mass sum to one" + lab, o["nodal_weightings"].sum(axis=1), 1 + 0 * m)
        loads = o["loads_from_point_masses"]
        env.eq("C16", "point-mass loads sum to -m g n in z" + lab, loads[:, :3].sum(axis=0), Fz.sum(axis=0))
        env.eq("C16", "point-mass loads have the total moment of the weights acting at the point-mass locations" + lab,
               total_moment(xp, nodes, loads[:, :3], q, loads[:, 3:]), total_moment(xp, loc, Fz, q))
    thr = env.var("engine_thrusts", th.shape["engine_thrusts"])
    Fx = xp.stack([-thr, 0 * thr, 0 * thr], axis=1)
    for lab, o2 in runs(env, "th", th.factory, dict(point_mass_locations=loc, engine_thrusts=thr, nodes=nodes)):
        l2 = o2["loads_from_thrusts"]
        env.eq("C16", "thrust loads sum to the thrust acting forward (-x)" + lab, l2[:, :3].sum(axis=0), Fx.sum(axis=0))
        env.eq("C16", "thrust loads have the total moment of the thrusts acting at the engine locations" + lab,
               total_moment(xp, nodes, l2[:, :3], q, l2[:, 3:]), total_moment(xp, loc, Fx, q))


@job("c16.TotalLoads", ("C16",), cfgs=product([dict(nx=2, ny=3)], [dict(symmetry=True, side="left")], [dict(model="tube")],
                                               [dict(), dict(struct_weight_relief=True), dict(distributed_fuel_weight=True),
                                                dict(n_point_masses=1), dict(struct_weight_relief=True, distributed_fuel_weight=True, n_point_masses=2)]))
def total_loads(env, **cfg):
    s = surf_of(cfg)
    h = env.comp("tl", lambda: cls("structures.total_loads.TotalLoads")(surface=s))
    ins = h.inputs()
    tot = h.compute(ins)["total_loads"]
    want = ins["loads"]
    expected = {"loads"}
    if s["struct_weight_relief"]:
        expected.add("struct_weight_loads")
    if s["distributed_fuel_weight"]:
        expected.add("fuel_weight_loads")
    if "n_point_masses" in s:
        expected |= {"loads_from_point_masses", "loads_from_thrusts"}
    env.holds("C16", "total loads take exactly the enabled load sources as inputs", set(h.in_names) == expected,
              "inputs %s, expected %s" % (sorted(h.in_names), sorted(expected)))
    for n in h.in_names:
        if n != "loads":
            want = want + ins[n]
    env.eq("C16", "total loads == sum of the enabled load sources", tot, want)


@job("c16.FuelVol", ("C16",), cfgs=product(NYS, SYMS, [dict(model="wingbox")]), ranges=R)
def fuel_vol(env, **cfg):
    xp = env.xp
    s = surf_of(cfg)
    fv = env.comp("fv", lambda: cls("structures.fuel_vol.WingboxFuelVol")(surface=s))
    fd = env.comp("fd", lambda: cls("structures.wingbox_fuel_vol_delta.WingboxFuelVolDelta")(surface=s))
    ins = fv.inputs()
    vols = fv.compute(ins)["fuel_vols"]
    env.eq("C16", "segment fuel volume == enclosed internal area * element length", vols, ins["A_int"] * _len(xp, ins["nodes"]))
    fb = env.var("fuelburn", ())
    d = fd.compute(dict(fuelburn=fb, fuel_vols=vols))["fuel_vol_delta"]
    share = env.frac(1, 2) if s["symmetry"] else env.frac(1)
    env.eq("C16", "fuel-volume margin == enclosed volume - required fuel volume (half share for a symmetric surface)",
           np.asarray(d).reshape(-1)[0], vols.sum() - share * (fb + s["Wf_reserve"]) / s["fuel_density"])


def dangling_inputs(p, scope, allowed=(), names=()):
    """inputs below `scope` of a set-up model that are left unconnected although a component below the same scope computes
    an output of the same local name (the value the input silently keeps is its declared default)"""
    m = p.model
    conn = m._conn_global_abs_in2out
    outs = {}
    for a in m._var_allprocs_abs2meta["output"]:
        if not a.startswith("_auto_ivc") and a.startswith(scope):
            outs.setdefault(a.rsplit(".", 1)[-1], []).append(a)
    res = []
    for tgt, src in sorted(conn.items()):
        if src.startswith("_auto_ivc") and tgt.startswith(scope):
            loc = tgt.rsplit(".", 1)[-1]
            if loc in outs and loc not in allowed:
                res.append("%s (computed by %s)" % (tgt, outs[loc][0]))
                continue
            # per-surface inputs of an aircraft-level component: <surface>_<variable> is computed as <variable> inside the
            # group(s) of that surface
            for nm in names:
                if loc.startswith(nm + "_") and loc[len(nm) + 1:] in outs and loc[len(nm) + 1:] not in allowed:
                    cands = [o for o in outs[loc[len(nm) + 1:]] if any(part == nm or part.startswith(nm + "_") for part in o.split(".")[:-1])]
                    if cands:
                        res.append("%s (computed by %s)" % (tgt, cands[0]))
                        break
    return res


def foreign_surface_components(p, names):
    """components that live in the group of one surface but were built from another surface's dictionary"""
    bad = []
    for c in p.model.system_iter(recurse=True):
        try:
            sd = c.options["surface"]
        except Exception:
            continue
        if not isinstance(sd, dict) or "name" not in sd:
            continue
        for part in c.pathname.split(".")[:-1]:
            for nm in names:
                if (part == nm or part.startswith(nm + "_")) and sd["name"] != nm and not any(part == sd["name"] or part.startswith(sd["name"] + "_") for part in c.pathname.split(".")[:-1]):
                    bad.append("%s is built from the dictionary of '%s'" % (c.pathname, sd["name"]))
    return sorted(set(bad))


def stale_reads(p, scope=""):
    """connections below `scope` whose source runs after its target in the execution order of their lowest common group while
    that group does not iterate (its nonlinear solver is run-once): such an input holds the value of the previous run (the
    declared default on the first run), so the outputs depend on the history of the instance"""
    import openmdao.api as om
    m = p.model
    order, iterating = {}, {}
    for g in m.system_iter(include_self=True, recurse=True, typ=om.Group):
        order[g.pathname] = {sub.name: k for k, sub in enumerate(g._subsystems_myproc)}
        iterating[g.pathname] = not isinstance(g.nonlinear_solver, om.NonlinearRunOnce)
    res = []
    for tgt, src in sorted(m._conn_global_abs_in2out.items()):
        if src.startswith("_auto_ivc") or not tgt.startswith(scope):
            continue
        a, b = src.split(".")[:-1], tgt.split(".")[:-1]
        k = 0
        while k < min(len(a), len(b)) and a[k] == b[k]:
            k += 1
        if k >= len(a) or k >= len(b):
            continue
        lca = ".".join(a[:k])
        o = order.get(lca)
        if o is None or a[k] not in o or b[k] not in o:
            continue
        if o[a[k]] > o[b[k]]:
            # a feedback connection is legitimate where the cycle is closed: between children of the group that iterates.  Inside
            # a run-once group it is a lag even when an outer group iterates (the group is also usable on its own)
            if not iterating.get(lca, False):
                res.append("%s reads %s, which runs later in group '%s'" % (tgt, src, lca or "<model>"))
    return res


@job("c16.struct_alone_wiring", ("C16", "C10", "C15", "C03"),
     cfgs=product([dict(model="tube"), dict(model="wingbox")], [dict(relief=False), dict(relief=True)], [dict(fuel=False), dict(fuel=True)], [dict(npm=0), dict(npm=2)])
     + [dict(model="tube", relief=False, fuel=False, npm=0, radius_cp=True), dict(model="tube", relief=True, fuel=False, npm=2, radius_cp=True)])
def struct_alone_wiring(env, model, relief, fuel, npm, radius_cp=False):
    """the structures-only group hands every quantity one of its parts computes to the parts that read it: no input of the
    group keeps its declared default while a component of the group computes a variable of that name (element masses for
    the weight relief, nodes, section properties, displacements ...).  Real connection table of the real SpatialBeamAlone for
    every combination of structural options.  fuel_vols / fuel_mass are connected by the user's script (documented pattern)."""
    import openmdao.api as om
    import warnings
    from ..surfaces import surface
    s = surface(name="wing", nx=2, ny=3, model=model, struct_weight_relief=relief, distributed_fuel_weight=fuel, n_point_masses=npm)
    if npm == 0:
        s.pop("n_point_masses", None)
    if radius_cp:
        s["radius_cp"] = np.array([0.1, 0.2])          # the spar radius as a design variable instead of following the wing thickness
    p = om.Problem(reports=False)
    p.model.add_subsystem("wing", cls("structures.struct_groups.SpatialBeamAlone")(surface=s))
    with warnings.catch_warnings():
        warnings.simplefilter("ignore")
        p.setup()
        p.final_setup()
    d = dangling_inputs(p, "wing.", allowed=("fuel_vols", "fuel_mass"))
    env.holds("C16,C10,C15", "SpatialBeamAlone: no input is left at its default while the group computes a variable of that name", not d, "; ".join(d[:4]))
    n_in = len([a for a in p.model._conn_global_abs_in2out if a.startswith("wing.")])
    env.holds("C16", "the wiring scan saw the group's inputs", n_in > 30, "%d inputs" % n_in)
    st = stale_reads(p, "wing.")
    env.holds("C16,C10,C15,C03", "SpatialBeamAlone: every input is computed before it is read (no value of the previous run)", not st, "; ".join(st[:4]))


@job("c16.aerostruct_point_wiring", ("C16", "C15", "C11", "C17", "C03", "C10"), cfgs=[dict(nsurf=1, relief=False, npm=0), dict(nsurf=2, relief=True, npm=2)])
def aerostruct_point_wiring(env, nsurf, relief, npm):
    """the same for the coupled analysis point of a complete aerostructural model built the documented way (geometry groups
    connected to the point as in the repository's examples), with one and with two structural surfaces: inside the point
    every surface's performance group reads that surface's own displacements, loads, forces ..."""
    import openmdao.api as om
    import warnings
    from ..surfaces import surface
    from openaerostruct.integration.aerostruct_groups import AerostructGeometry, AerostructPoint
    surfs = []
    for k in range(nsurf):
        s = surface(name=["wing", "tail"][k], nx=2, ny=3, model="tube", struct_weight_relief=relief, n_point_masses=npm, xshift=3.0 * k)
        if k == 1:
            s["E"], s["G"], s["yield"] = 0.5 * s["E"], 0.5 * s["G"], 0.4 * s["yield"]          # another material
        if npm == 0:
            s.pop("n_point_masses", None)
        surfs.append(s)
    p = om.Problem(reports=False)
    ivc = om.IndepVarComp()
    for n_, v_, u_ in (("v", 248., "m/s"), ("alpha", 5., "deg"), ("Mach_number", .84, None), ("re", 1e6, "1/m"), ("rho", .38, "kg/m**3"),
                       ("CT", 1e-4, "1/s"), ("R", 1e6, "m"), ("W0", 1e4, "kg"), ("speed_of_sound", 295., "m/s"), ("load_factor", 1., None),
                       ("empty_cg", np.zeros(3), "m")):
        ivc.add_output(n_, val=v_, units=u_)
    p.model.add_subsystem("prob_vars", ivc, promotes=["*"])
    for s in surfs:
        p.model.add_subsystem(s["name"], AerostructGeometry(surface=s))
    p.model.add_subsystem("AS", AerostructPoint(surfaces=surfs),
                          promotes_inputs=["v", "alpha", "Mach_number", "re", "rho", "CT", "R", "W0", "speed_of_sound", "empty_cg", "load_factor"])
    for s in surfs:
        n = s["name"]
        com = "AS.coupled." + n
        p.model.connect(n + ".local_stiff_transformed", com + ".local_stiff_transformed")
        p.model.connect(n + ".nodes", com + ".nodes")
        p.model.connect(n + ".mesh", com + ".mesh")
        for v_ in ("radius", "thickness"):
            p.model.connect(n + "." + v_, "AS." + n + "_perf." + v_)
        p.model.connect(n + ".nodes", "AS." + n + "_perf.nodes")
        p.model.connect(n + ".cg_location", "AS.total_perf." + n + "_cg_location")
        p.model.connect(n + ".structural_mass", "AS.total_perf." + n + "_structural_mass")
        p.model.connect(n + ".t_over_c", "AS." + n + "_perf.t_over_c")
        if relief:
            p.model.connect(n + ".element_mass", com + ".element_mass")
    with warnings.catch_warnings():
        warnings.simplefilter("ignore")
        p.setup()
        p.final_setup()
    d = dangling_inputs(p, "AS.", allowed=("fuel_vols", "fuel_mass"), names=[s["name"] for s in surfs])
    env.holds("C16,C15,C11,C17", "AerostructPoint: no input inside the point is left at its default while the point computes a variable of that name",
              not d, "; ".join(d[:4]))
    fs = foreign_surface_components(p, [s["name"] for s in surfs])
    env.holds("C16,C15,C10,C17", "AerostructPoint: the groups of each surface are built from that surface's own dictionary (material, options)",
              not fs, "; ".join(fs[:4]))
    n_in = len([a for a in p.model._conn_global_abs_in2out if a.startswith("AS.")])
    env.holds("C16", "the wiring scan saw the point's inputs", n_in > 100, "%d inputs" % n_in)
    st = stale_reads(p, "")
    env.holds("C16,C15,C11,C17,C03", "aerostructural model: every input is computed before it is read, feedback only between children of the iterating coupled group "
              "(no value of the previous run)", not st, "; ".join(st[:4]))
    from openaerostruct.integration.aerostruct_groups import CoupledAS
    import openmdao.api as _om
    it = [g for g in p.model.system_iter(recurse=True, typ=_om.Group) if g.pathname == "AS.coupled"]
    env.holds("C16", "the coupled group carries an iterating nonlinear solver", bool(it) and not isinstance(it[0].nonlinear_solver, _om.NonlinearRunOnce))
