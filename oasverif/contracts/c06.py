"""C06: aerodynamic results obey dynamic-pressure, scaling and translation laws (relational obligations over the real
AeroPoint group, executed symbolically through OpenMDAO's real connection graph)."""
import numpy as np
from ..runner import job
from .. import core
from .. import gsx, term as S
from .c01_components import cls, two_surfaces, T, MESH_RANGES
from ..surfaces import surface

RG = list(MESH_RANGES) + [(r"alpha|beta", 1.0, 8.0), (r"^v|^rho", 0.5, 2.0), (r"^a$|^b$|^k$", 0.6, 1.6), (r"omega", -0.3, 0.3),
                          (r"^re", 1e5, 1e6), (r"Mach", 0.2, 0.6), (r"cg|^t\[", -1.0, 1.0), (r"t_over_c", 0.08, 0.16),
                          (r"sec_forces", -1.5, 1.5)]


def s0(x):
    return np.asarray(x).reshape(-1)[0]


def surfaces_for(cfg):
    ss = two_surfaces(cfg)
    for s in ss:
        s["with_viscous"] = cfg.get("viscous", False)
        s["with_wave"] = False
    return ss


def base_inputs(env, g, surfs, tag=""):
    """one shared set of symbolic free inputs for related runs"""
    given = {}
    for prom in g.prom_inputs():
        given[prom] = env.var(tag + prom.replace(".", "_"), g.free_shape(prom))
    return given


def solve_hint(g1_solves, scale):
    """candidate solution of the second run's tangency system: scale * (first run's unknowns); the residual identity is
    checked by the caller"""
    def hint(rec):
        return scale * np.asarray(g1_solves[0]["x"], dtype=object).reshape(-1)
    return hint


def check_solve_relation(env, prop, label, g, solves1, mult):
    """uniqueness lemma: residual of the second system at the candidate == mult * residual of the first system at its
    solution (an identity in the first run's unknowns); with a non-singular matrix the candidate is the solution"""
    rec2 = g.solves[0]
    rec1 = solves1[0]
    A1 = rec1["A"].T if rec1["trans"] else rec1["A"]
    from ..spshim import _mm
    r1 = _mm(A1, np.asarray(rec1["x"], dtype=object).reshape(-1)) - np.asarray(rec1["b"], dtype=object).reshape(-1)
    env.eq(prop, "solve lemma (%s): A' phi - b' == m (A x - b) for the candidate phi" % label, rec2["residual_at_phi"], mult * r1)
    env.assumptions.add("non-singular AIC matrix: the solution of the tangency system is unique (used to carry relations through the solve)")


CF = [dict(nx=2, ny=3, symmetry=True, side="left", nsurf=1), dict(nx=2, ny=3, symmetry=False, nsurf=1, _tier=T),
      dict(nx=2, ny=2, symmetry=True, side="right", nsurf=2, tail_sym=False)]


@job("c06.dynamic_pressure", ("C06",), cfgs=[dict(c, viscous=v) for c in CF for v in (False, True)], ranges=RG, cost=8)
def dynamic_pressure(env, **cfg):
    surfs = surfaces_for(cfg)
    g = gsx.GroupSX(env, gsx.aero_model(surfs))
    if not env.sym:
        return _dynamic_pressure_native(env, g, surfs)
    env.use_helpers("eval_mtx")
    given = base_inputs(env, g, surfs)
    v1 = g.run(given)
    solves1 = list(g.solves)
    a = env.var("a", ())
    b = env.var("b", ())
    g2 = dict(given)
    g2["rho"] = a * given["rho"]
    g2["v"] = b * given["v"]
    v2 = g.run(g2, hints={"solve_matrix": solve_hint(solves1, b)})
    check_solve_relation(env, "C06", "rho,v scaling", g, solves1, b)
    for s in surfs:
        n = s["name"]
        f1 = g.get(v1, "ap.aero_states.%s_sec_forces" % n)
        f2 = g.get(v2, "ap.aero_states.%s_sec_forces" % n)
        env.eq("C06", "sectional forces scale with rho * v^2 [%s]" % n, f2, (a * b * b) * f1)
        for q in ("CL", "CD", "Cl", "CDi", "CL1"):
            if cfg.get("viscous") and q == "CD":
                continue
            env.eq("C06", "surface %s unchanged under (rho, v) scaling [%s]" % (q, n), g.get(v2, "ap.%s_perf.%s" % (n, q)), g.get(v1, "ap.%s_perf.%s" % (n, q)))
    for q in ("CL", "CM") + (() if cfg.get("viscous") else ("CD",)):
        env.eq("C06", "aircraft %s unchanged under (rho, v) scaling" % q, g.get(v2, "ap." + q), g.get(v1, "ap." + q))
    _area_weighted(env, g, v1, surfs)


def _dynamic_pressure_native(env, g, surfs):
    given = base_inputs(env, g, surfs)
    v1 = g.run(given)
    a, b = env.var("a", ()), env.var("b", ())
    g2 = dict(given)
    g2["rho"] = a * given["rho"]
    g2["v"] = b * given["v"]
    v2 = g.run(g2)
    for s in surfs:
        n = s["name"]
        env.eq("C06", "sectional forces scale with rho * v^2 [%s]" % n, g.get(v2, "ap.aero_states.%s_sec_forces" % n),
               (a * b * b) * g.get(v1, "ap.aero_states.%s_sec_forces" % n))
    for q in ("CL", "CM"):
        env.eq("C06", "aircraft %s unchanged under (rho, v) scaling" % q, g.get(v2, "ap." + q), g.get(v1, "ap." + q))
    for s in surfs:
        n = s["name"]
        env.eq("C06", "surface Cl unchanged under (rho, v) scaling [%s]" % n, g.get(v2, "ap.%s_perf.Cl" % n), g.get(v1, "ap.%s_perf.Cl" % n))
    _area_weighted(env, g, v1, surfs)


def _area_weighted(env, g, vals, surfs):
    """aircraft coefficients of the analysis point are the reference-area-weighted combination of the coefficients the point
    reports for its surfaces (lift offset CL0 and drag offset CD0 of every surface included)"""
    Stot = s0(g.get(vals, "ap.total_perf.S_ref_total"))
    for q in ("CL", "CD"):
        tot = sum(s0(g.get(vals, "ap.%s_perf.%s" % (s["name"], q))) * s0(g.get(vals, "ap.%s.S_ref" % s["name"])) for s in surfs)
        env.eq("C06", "aircraft %s * S_ref_total == sum of surface %s * S_ref over the surfaces" % (q, q), s0(g.get(vals, "ap." + q)) * Stot, tot)
    env.eq("C06", "S_ref_total == sum of the surface areas (no reference area specified)", Stot, sum(s0(g.get(vals, "ap.%s.S_ref" % s["name"])) for s in surfs))


@job("c06.viscous_length_scaling", ("C06",), cfgs=[dict(k_lam=0.05, symmetry=True), dict(k_lam=0.0, symmetry=False), dict(k_lam=1.0, symmetry=True)],
     ranges=RG + [(r"^(P\.)?re", 1e5, 1e6), (r"Mach", 0.2, 0.8), (r"t_over_c", 0.05, 0.2), (r"cos_sweep", 0.7, 1.0), (r"^k$", 0.4, 3.0)], cost=5)
def viscous_length_scaling(env, k_lam, symmetry):
    """the viscous drag coefficient depends on lengths only through the chord Reynolds number: lengths and widths times k,
    reference area times k^2, Reynolds number per length divided by k leave it unchanged - on every laminar/turbulent
    branch (laminar fraction 0, in between, 1)"""
    from ..surfaces import surface
    s = surface(name="wing", nx=2, ny=3, symmetry=symmetry, with_viscous=True, extra=dict(k_lam=k_lam))
    h = env.comp("v", lambda: cls("aerodynamics.viscous_drag.ViscousDrag")(surface=s, with_viscous=True))
    ins = h.inputs()
    k = env.var("k", ())
    ins2 = dict(ins)
    ins2["re"] = ins["re"] / k
    ins2["lengths"] = ins["lengths"] * k
    ins2["widths"] = ins["widths"] * k
    ins2["lengths_spanwise"] = ins["lengths_spanwise"] * k
    ins2["S_ref"] = ins["S_ref"] * k * k
    env.eq("C06", "CDv unchanged when every length is scaled by k and the Reynolds number per length by 1/k [k_lam = %s]" % k_lam,
           h.compute(ins2)["CDv"], h.compute(ins)["CDv"])


@job("c06.translation", ("C06",), cfgs=[dict(nx=2, ny=3, symmetry=False, nsurf=1, yshift=3.0, rotational=False, dict_shift=-6.0),   # a full-span surface moved across the centre line (the model is rebuilt from the moved mesh)
                                         dict(CF[0], rotational=False), dict(CF[0], rotational=True), dict(CF[2], rotational=True),
                                         dict(nx=2, ny=2, symmetry=True, side="left", nsurf=1, groundplane=True, rotational=False),   # ground effect on
                                         dict(CF[1], rotational=True, _tier=T)], ranges=RG, cost=8)
def translation(env, rotational, dict_shift=None, **cfg):
    """translating all surfaces and the moment reference point together changes nothing (x, z translations when a
    symmetry plane is present); dict_shift: the translated model is built anew from surface dictionaries whose meshes are
    moved by that much in y (the code reads the option meshes too), the symbolic inputs move by the same amount"""
    surfs = surfaces_for(cfg)
    g = gsx.GroupSX(env, gsx.aero_model(surfs, rotational=rotational))
    g_moved = g
    if dict_shift is not None:
        surfs2 = surfaces_for(dict(cfg, yshift=cfg.get("yshift", 0.0) + dict_shift))
        g_moved = gsx.GroupSX(env, gsx.aero_model(surfs2, rotational=rotational), key="moved")
    if env.sym:
        env.use_helpers("eval_mtx")
    given = base_inputs(env, g, surfs)
    v1 = g.run(given)
    solves1 = list(g.solves)
    t = env.var("t", (3,))
    if any(s["symmetry"] for s in surfs):
        t = t * np.array([1, 0, 1])
    if dict_shift is not None:
        t = t * np.array([1, 0, 1]) + np.array([0, dict_shift, 0])
    g2 = dict(given)
    for s in surfs:
        nm = "%s_def_mesh" % s["name"]
        g2[nm] = given[nm] + t.reshape(1, 1, 3)
    g2["cg"] = given["cg"] + t
    gp = " (ground plane left in place)" if cfg.get("groundplane") else ""
    if env.sym:
        v2 = g_moved.run(g2, hints={"solve_matrix": solve_hint(solves1, 1)})
        check_solve_relation(env, "C06", "translation" + gp, g_moved, solves1, 1)
    else:
        v2 = g_moved.run(g2)
    for s in surfs:
        n = s["name"]
        env.eq("C06", "sectional forces unchanged by a common translation of surfaces and reference point%s [%s]" % (gp, n),
               g_moved.get(v2, "ap.aero_states.%s_sec_forces" % n), g.get(v1, "ap.aero_states.%s_sec_forces" % n))
    for q in ("CL", "CD", "CM"):
        env.eq("C06", "aircraft %s unchanged by a common translation%s" % (q, gp), g_moved.get(v2, "ap." + q), g.get(v1, "ap." + q))
    if cfg.get("groundplane"):
        # the ground plane {p : p . n == height_agl}, n = (sin alpha, 0, -cos alpha), is anchored to the coordinate origin: with the
        # ground carried along (height_agl + t . n) the law holds exactly
        xp = env.xp
        a = given["alpha"].reshape(-1)[0] * (env.pi / 180 if env.sym else np.pi / 180)
        g3 = dict(g2)
        g3["height_agl"] = given["height_agl"] + t[0] * xp.sin(a) - t[2] * xp.cos(a)
        if env.sym:
            v3 = g.run(g3, hints={"solve_matrix": solve_hint(solves1, 1)})
            check_solve_relation(env, "C06", "translation, ground carried along", g, solves1, 1)
        else:
            v3 = g.run(g3)
        for s in surfs:
            n = s["name"]
            env.eq("C06", "ground effect: sectional forces unchanged by a common translation of surfaces, reference point and ground plane [%s]" % n,
                   g.get(v3, "ap.aero_states.%s_sec_forces" % n), g.get(v1, "ap.aero_states.%s_sec_forces" % n))
        for q in ("CL", "CD", "CM"):
            env.eq("C06", "ground effect: aircraft %s unchanged by a common translation that carries the ground plane along" % q,
                   g.get(v3, "ap." + q), g.get(v1, "ap." + q))


@job("c06.length_scaling", ("C06",), cfgs=[dict(nx=2, ny=2, symmetry=True, side="left", nsurf=1),
                                            dict(nx=2, ny=3, symmetry=True, side="left", nsurf=1, _tier=T)], ranges=RG, cost=60)
def length_scaling(env, **cfg):
    """scaling every length by k = c^2 > 0 scales forces by k^2 and leaves coefficients unchanged (kernel with its full
    real body; clause stated on the branch where the kernel's absolute tolerance mask is inactive in both runs)"""
    surfs = surfaces_for(cfg)
    g = gsx.GroupSX(env, gsx.aero_model(surfs))
    given = base_inputs(env, g, surfs)
    env.indicator_branch = 1
    env.indicator_only = core.kernel_tol_mask          # only the documented |den| <= 1e-10 guard of the kernels is exempt
    v1 = g.run(given)
    solves1 = list(g.solves)
    c = env.var("k", ())
    k = c * c
    g2 = dict(given)
    for s in surfs:
        nm = "%s_def_mesh" % s["name"]
        g2[nm] = k * given[nm]
    g2["cg"] = k * given["cg"]
    g2["re"] = given["re"] / k
    if env.sym:
        v2 = g.run(g2, hints={"solve_matrix": solve_hint(solves1, k)})
        # A' = A / k, b' = b, candidate k x:  A' (k x) - b' = A x - b
        check_solve_relation(env, "C06", "length scaling", g, solves1, 1)
    else:
        v2 = g.run(g2)
    for s in surfs:
        n = s["name"]
        env.eq("C06", "sectional forces scale with k^2 under length scaling [%s]" % n,
               g.get(v2, "ap.aero_states.%s_sec_forces" % n), (k * k) * g.get(v1, "ap.aero_states.%s_sec_forces" % n))
        env.eq("C06", "reference area scales with k^2 [%s]" % n, g.get(v2, "ap.%s.S_ref" % n), (k * k) * g.get(v1, "ap.%s.S_ref" % n))
    for q in ("CL", "CD", "CM"):
        env.eq("C06", "aircraft %s unchanged under length scaling" % q, g.get(v2, "ap." + q), g.get(v1, "ap." + q))
    env.note("length-scaling law proved on the branch |den| > tol of the vortex kernel in both configurations (absolute tolerance 1e-10)")


@job("c06.LiftDrag", ("C06",), cfgs=[dict(nx=2, ny=3, symmetry=True, side="left", nsurf=1), dict(nx=3, ny=3, symmetry=False, nsurf=1)], ranges=RG)
def lift_drag(env, **cfg):
    """lift and drag are the components of the summed panel forces normal to and along the free stream; the free-stream
    direction is the very term ConvertVelocity hands to the solver"""
    xp = env.xp
    surfs = two_surfaces(cfg)
    s = surfs[0]
    ld = env.comp("ld", lambda: cls("aerodynamics.lift_drag.LiftDrag")(surface=s))
    cv = env.comp("cv", lambda: cls("aerodynamics.convert_velocity.ConvertVelocity")(surfaces=surfs))
    ins = ld.inputs()
    o = ld.compute(ins)
    v = env.var("v", (1,))
    fs = cv.compute(dict(alpha=ins["alpha"], beta=ins["beta"], v=v))["freestream_velocities"]
    d_hat = fs[0] / v[0]
    a = s0(ins["alpha"]) * env.pi / 180
    l_hat = xp.array([-xp.sin(a), 0 * a, xp.cos(a)]) if not env.sym else np.array([-xp.sin(a), 0 * a, xp.cos(a)], dtype=object)
    F = ins["sec_forces"].reshape(-1, 3).sum(axis=0)
    both = 2 if s["symmetry"] else 1
    env.eq("C06", "free-stream direction has unit length", (d_hat * d_hat).sum(), 1)
    env.eq("C06", "lift direction is normal to the free stream", (d_hat * l_hat).sum(), 0)
    env.eq("C06", "D == (sum of panel forces) . free-stream direction (both halves for a symmetric surface)", s0(o["D"]), both * (F * d_hat).sum())
    env.eq("C06", "L == (sum of panel forces) . lift direction (both halves for a symmetric surface)", s0(o["L"]), both * (F * l_hat).sum())
    co = env.comp("co", lambda: cls("aerodynamics.coeffs.Coeffs")())
    ci = co.inputs()
    oc = co.compute(ci)
    q = env.frac(1, 2) * s0(ci["rho"]) * s0(ci["v"]) ** 2 * s0(ci["S_ref"])
    env.eq("C06", "CL1 == L / (q S_ref)", s0(oc["CL1"]) * q, s0(ci["L"]))
    env.eq("C06", "CDi == D / (q S_ref)", s0(oc["CDi"]) * q, s0(ci["D"]))
