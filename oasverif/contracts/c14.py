"""C14: generated meshes are well-formed, ordered and consistent between half and full."""
import numpy as np
from ..runner import job
from .. import term as S
from .c01_components import T, cls

BOX = {r"^span$": (0.5, 50.0), r"^chord$": (0.1, 10.0), r"^s$": (0.0, 1.0), r"^c$": (0.0, 1.0), r"offset": (None, None)}
RG = [(r"^span$", 2.0, 12.0), (r"^chord$", 0.5, 2.0), (r"^s$", 0.1, 0.9), (r"^c$", 0.1, 0.9), (r"offset", -2.0, 2.0)]
SIZES = [dict(num_x=2, num_y=3), dict(num_x=3, num_y=5), dict(num_x=4, num_y=7, _tier=T), dict(num_x=5, num_y=11, _tier=T)]


def _gm(env, d):
    from openaerostruct.geometry.utils import generate_mesh
    import warnings
    with warnings.catch_warnings():
        warnings.simplefilter("ignore")
        return env.call(generate_mesh, d)


@job("c14.rect", ("C14",), cfgs=SIZES, ranges=RG, cost=5)
def rect(env, num_x, num_y):
    """rectangular meshes from the public generator, for all spans, chords, cosine-spacing blends in [0,1] and offsets"""
    from openaerostruct.geometry.utils import getFullMesh
    env.numeric_pi()
    span, chord, s, c = env.var("span", ()), env.var("chord", ()), env.var("s", ()), env.var("c", ())
    off = env.var("offset", (3,))
    base = dict(num_x=num_x, num_y=num_y, wing_type="rect", span=span, root_chord=chord, span_cos_spacing=s, chord_cos_spacing=c)
    for path, (full, half, full_off) in env.explore(lambda: (_gm(env, dict(base, symmetry=False)), _gm(env, dict(base, symmetry=True)),
                                                            _gm(env, dict(base, symmetry=False, offset=off)))):
        if env.sym and any(isinstance(cnd, S.SymBool) and cnd.op == '==' and b for cnd, b in path):
            continue                       # span_cos_spacing == 2.0 (root-and-tip bunching) lies outside the quantifier's [0, 1]
        nyh = (num_y + 1) // 2
        env.holds("C14", "full mesh has the documented shape (num_x, num_y, 3)", np.shape(full) == (num_x, num_y, 3), str(np.shape(full)))
        env.holds("C14", "half mesh has the documented shape (num_x, (num_y+1)/2, 3)", np.shape(half) == (num_x, nyh, 3), str(np.shape(half)))
        env.positive("C14", "x increases chordwise", full[1:, :, 0] - full[:-1, :, 0], BOX)
        env.positive("C14", "y increases spanwise", full[:, 1:, 1] - full[:, :-1, 1], BOX)
        env.eq("C14", "tip-to-tip extent == span", full[0, -1, 1] - full[0, 0, 1], span)
        env.eq("C14", "root chord == requested chord", full[-1, nyh - 1, 0] - full[0, nyh - 1, 0], chord)
        env.eq("C14", "every section has the requested chord (rectangular planform)", full[-1, :, 0] - full[0, :, 0], chord + 0 * full[0, :, 0])
        env.eq("C14", "mirror symmetry about y = 0", full[:, ::-1, :] * np.array([1, -1, 1]), full)
        env.eq("C14", "z == 0 (flat planform)", full[:, :, 2], 0 * full[:, :, 2])
        env.eq("C14", "offset is a pure translation", full_off, full + off)
        env.eq("C14", "symmetric half mesh == left half of the full mesh", half, full[:, :nyh, :])
        env.eq("C14", "mirroring the half mesh back (getFullMesh) reproduces the full mesh", env.call(getFullMesh, half), full)
        env.eq("C14", "getFullMesh from the right half reproduces the full mesh", env.call(getFullMesh, None, full[:, nyh - 1:, :]), full)


@job("c14.crm", ("C14", "C04"), cfgs=[dict(num_x=2, num_y=5, s=0.0, c=0.0), dict(num_x=3, num_y=7, s=0.5, c=1.0), dict(num_x=5, num_y=5, s=0.0, c=0.3),    # several interior chordwise rows
                                 dict(num_x=3, num_y=5, s=1.0, c=0.5, _tier=T)],
     ranges=RG, cost=5)
def crm(env, num_x, num_y, s, c):
    """CRM planform (tabulated data interpolated with np.interp: the spacing blends are concrete per configuration, the
    offset is symbolic): shape, ordering, symmetry, half = left half, offsets"""
    from openaerostruct.geometry.utils import getFullMesh
    env.numeric_pi()
    off = env.var("offset", (3,))
    base = dict(num_x=num_x, num_y=num_y, wing_type="CRM", span_cos_spacing=s, chord_cos_spacing=c)
    full, tw = _gm(env, dict(base, symmetry=False))
    half, tw2 = _gm(env, dict(base, symmetry=True))
    full_off, _ = _gm(env, dict(base, symmetry=False, offset=off))
    nyh = (num_y + 1) // 2
    env.holds("C14", "CRM full mesh has the documented shape", np.shape(full) == (num_x, num_y, 3), str(np.shape(full)))
    env.positive("C14", "CRM: x increases chordwise", full[1:, :, 0] - full[:-1, :, 0], BOX)
    env.positive("C14", "CRM: y increases spanwise", full[:, 1:, 1] - full[:, :-1, 1], BOX)
    env.eq("C14", "CRM: mirror symmetry about y = 0", full[:, ::-1, :] * np.array([1, -1, 1]), full)
    env.eq("C14", "CRM: offset is a pure translation", full_off, full + off)
    env.eq("C14", "CRM: symmetric half mesh == left half of the full mesh", half, full[:, :nyh, :])
    env.eq("C14,C04", "CRM: getFullMesh(half) reproduces the full mesh", env.call(getFullMesh, half), full)


@job("c14.multi_section", ("C14",), cfgs=[dict(nsec=2, nx=2, ny=(3, 3), symmetry=True), dict(nsec=3, nx=2, ny=(3, 2, 3), symmetry=True),
                                           dict(nsec=5, nx=2, ny=(2, 3, 2, 2, 3), symmetry=True),      # beyond any "first/last section" special case
                                           dict(nsec=3, nx=2, ny=(3, 3, 3), symmetry=False, root_section=1),      # a section right of the root
                                           dict(nsec=3, nx=3, ny=(3, 4, 3), symmetry=True, _tier=T)],
     ranges=[(r"^b|^t|^c0", 0.7, 1.4), (r"^sw", 0.05, 0.3)], cost=10)
def multi_section(env, nsec, nx, ny, symmetry, root_section=None):
    """multi-section meshes (per-section span b_k^2, taper t_k^2, sweep): sections join with coincident edges; the unified
    mesh equals the contiguous generated mesh node for node; chords follow the product of the tapers"""
    from openaerostruct.geometry.geometry_mesh_gen import generate_mesh as gen_multi
    from openaerostruct.geometry.geometry_unification import unify_mesh
    env.numeric_pi()
    xp = env.xp
    b = env.var("b", (nsec,))
    t = env.var("t", (nsec,))
    sw = env.var("sw", (nsec,))
    c0 = env.var("c0", ())
    surf = dict(name="surface", is_multi_section=True, num_sections=nsec, sec_name=["sec%d" % k for k in range(nsec)], symmetry=symmetry,
                taper=[t[k] * t[k] for k in range(nsec)], span=[b[k] * b[k] for k in range(nsec)], sweep=[sw[k] for k in range(nsec)],
                root_chord=c0 * c0, meshes="gen-meshes", nx=nx, ny=list(ny))
    if root_section is not None:
        surf["root_section"] = root_section
    for path, (mesh, secs) in env.explore(lambda: env.call(gen_multi, surf)):
        if env.sym and any(isinstance(cnd, S.SymBool) and cnd.op == '==' and bb for cnd, bb in path):
            continue                      # tip_le == tip_te: a section tapering to a point (taper 0), outside the box
        if not symmetry:
            for k in range(nsec - 1):
                env.eq("C14", "full-span surface given by sections on both sides of the root: sections %d and %d join with a coincident edge" % (k, k + 1),
                       secs[k][:, -1, :], secs[k + 1][:, 0, :])
            continue
        for k in range(nsec - 1):
            env.eq("C14", "sections %d and %d join with a coincident edge" % (k, k + 1), secs[k][:, -1, :], secs[k + 1][:, 0, :])
        chord = c0 * c0
        for k in range(nsec - 1, -1, -1):
            root_c = secs[k][-1, -1, 0] - secs[k][0, -1, 0]
            tip_c = secs[k][-1, 0, 0] - secs[k][0, 0, 0]
            env.eq("C14", "section %d: inboard chord == root chord * product of the inboard tapers" % k, root_c, chord)
            chord = chord * t[k] * t[k]
            env.eq("C14", "section %d: outboard chord == inboard chord * taper" % k, tip_c, chord)
            env.eq("C14", "section %d: span == requested span" % k, secs[k][0, -1, 1] - secs[k][0, 0, 1], b[k] * b[k])
        uni = env.call(unify_mesh, [dict(mesh=m) for m in secs])
        env.eq("C14", "unifying the sections reproduces the contiguous surface node for node", uni, mesh)


@job("c14.crm_tables", ("C14",))
def crm_tables(env):
    """the tabulated CRM planforms (every variant the generator accepts): span station eta and the leading-edge y strictly
    increasing and proportional (y = eta * semi-span to 0.1 %), leading-edge x increasing (swept-back wing), chord positive
    and decreasing from the root to the tip - no mistyped entry folds the planform back on itself.  Exhaustive over the
    rows of every table (data, decided by evaluation)."""
    from openaerostruct.geometry.CRM_definitions import get_crm_points
    variants = ["CRM", "CRM:jig", "CRM:jig_wind_tunnel"] + ["CRM:alpha_%s" % a for a in ("2.50", "2.75", "3.00", "3.25", "3.50", "3.75", "4.00")]
    seen = 0
    for v in variants:
        try:
            T = np.asarray(get_crm_points(v), dtype=float)
        except Exception as e:
            env.holds("C14", "CRM table %s is available" % v, False, "%s: %s" % (type(e).__name__, e))
            continue
        seen += 1
        eta, xle, yle, chord = T[:, 0], T[:, 1], T[:, 2], T[:, 5]
        inc = lambda a: bool(np.all(np.diff(a) > 0))
        env.holds("C14", "CRM table %s: span stations strictly increase" % v, inc(eta), str(eta[:-1][np.diff(eta) <= 0]))
        env.holds("C14", "CRM table %s: leading-edge y strictly increases" % v, inc(yle), str(yle[:-1][np.diff(yle) <= 0]))
        env.holds("C14", "CRM table %s: leading-edge x increases (swept back)" % v, inc(xle), str(xle[:-1][np.diff(xle) <= 0]))
        env.holds("C14", "CRM table %s: chord positive and not increasing outboard" % v, bool(np.all(chord > 0) and np.all(np.diff(chord) <= 1e-9 * chord[0])),
                  str(chord))
        ratio = yle[1:] / eta[1:]
        env.holds("C14", "CRM table %s: leading-edge y == eta * semi-span (0.1 %%)" % v, bool(np.all(np.abs(ratio / ratio[-1] - 1) < 1e-3)),
                  "y/eta = %s" % np.round(ratio, 2))
    env.holds("C14", "the CRM tables were found", seen >= 9, "%d" % seen)


@job("c14.join", ("C14", "C19"), cfgs=[dict(nys=(2, 3, 2), dims=((1, 0, 0), (0, 1, 0))), dict(nys=(2, 3, 2), dims=((1, 0, 1), (0, 1, 1))),
                                        dict(nys=(3, 2), dims=((1, 1, 1),)), dict(nys=(2, 2, 3, 2), dims=((0, 0, 1), (1, 0, 0), (0, 1, 0)), _tier="thorough")])
def join(env, nys, dims):
    """the joining constraint of multi-section wings: for every shared edge, in order, the separation along the axes selected
    for THAT edge between the leading- and trailing-edge corners of the two adjoining sections (left edge of the outboard...
    next section minus right edge of the previous one) - zero exactly when the edges coincide along those axes"""
    from .c01_components import _sections, MESH_RANGES
    env.add_ranges(*MESH_RANGES)
    secs = _sections(nys)
    h = env.comp("join", lambda: cls("geometry.geometry_multi_join.GeomMultiJoin")(sections=secs, dim_constr=[np.array(d) for d in dims]))
    ins = h.inputs()
    meshes = [ins["%s_join_mesh" % s["name"]] for s in secs]
    want = []
    for k, d in enumerate(dims):
        axes = [a for a in range(3) if d[a]]
        right_prev = meshes[k][[0, -1], -1][:, axes]            # leading and trailing edge corner of the right edge of section k
        left_next = meshes[k + 1][[0, -1], 0][:, axes]
        want.append((left_next - right_prev).reshape(-1))
    env.eq("C14,C19", "section separation == corner-to-corner distance along each edge's own constrained axes", h.compute(ins)["section_separation"],
           np.concatenate(want))


@job("c14.multi_section_resolution", ("C14",), cfgs=[dict(symmetry=True)])
def multi_section_resolution(env, symmetry):
    """the four ways of stating the resolution of a multi-section mesh - node counts (ny, nx), panel counts (bpanels, cpanels) and
    the two mixed forms - give the same meshes node for node: the documented shape (nx, sum(ny) - (sections - 1), 3) follows
    the request (concrete sizes, decided by evaluation)"""
    from openaerostruct.geometry.geometry_mesh_gen import generate_mesh as gen_multi
    base = dict(name="surface", num_sections=2, symmetry=symmetry, taper=[0.8, 0.6], span=[1.5, 2.0], sweep=[0.1, 0.2], root_chord=1.2)
    ny, nx = np.array([3, 4]), 3
    ref_mesh, ref_secs = gen_multi(dict(base, ny=ny, nx=nx))
    env.functions.add("openaerostruct.geometry.geometry_mesh_gen.generate_mesh")
    env.holds("C14", "multi-section mesh has the documented shape (nx, sum(ny) - (sections - 1), 3)", ref_mesh.shape == (nx, int(ny.sum()) - 1, 3), str(ref_mesh.shape))
    for label, spec in (("bpanels + cpanels", dict(bpanels=ny - 1, cpanels=nx - 1)), ("bpanels + nx", dict(bpanels=ny - 1, nx=nx)), ("ny + cpanels", dict(ny=ny, cpanels=nx - 1))):
        try:
            m, secs = gen_multi(dict(base, **spec))
            ok = m.shape == ref_mesh.shape and np.allclose(m, ref_mesh, rtol=0, atol=1e-13) and all(a.shape == b.shape and np.allclose(a, b, rtol=0, atol=1e-13) for a, b in zip(secs, ref_secs))
            detail = "shape %s against %s" % (m.shape, ref_mesh.shape)
        except Exception as e:
            ok, detail = False, "%s: %s" % (type(e).__name__, e)
        env.holds("C14", "resolution given as %s == the same request in node counts" % label, bool(ok), detail)
