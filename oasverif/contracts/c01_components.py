"""C01 / C03: derivative exactness and history independence of every component (generic clauses of _generic.py
instantiated over the configuration grid).  One job per component class; one run per configuration."""
import importlib
import numpy as np

from ..runner import job
from ..surfaces import surface, mesh
from ._generic import derivative_contract

Q = "quick"
T = "thorough"


def cls(path):
    mod, name = path.rsplit(".", 1)
    return getattr(importlib.import_module("openaerostruct." + mod), name)


def shapes_1surf(quick=((2, 3), (3, 2)), thorough=((3, 3), (2, 4), (3, 5))):     # (3, 2): an interior chordwise row (index offsets that coincide for nx = 2)
    out = [dict(nx=nx, ny=ny) for nx, ny in quick]
    out += [dict(nx=nx, ny=ny, _tier=T) for nx, ny in thorough]
    return out


def product(*lists):
    out = [{}]
    for l in lists:
        nxt = []
        for a in out:
            for b in l:
                d = dict(a)
                d.update(b)
                if a.get("_tier") == T or b.get("_tier") == T:
                    d["_tier"] = T
                nxt.append(d)
        out = nxt
    return out


SYM = [dict(symmetry=True, side="left"), dict(symmetry=True, side="right", _tier=T), dict(symmetry=False)]
SYM_Q = [dict(symmetry=True, side="left"), dict(symmetry=False)]

MESH_RANGES = [(r"mesh.*\]\[0\]$", -1.0, 1.0)]


def surf_of(cfg, **kw):
    c = {k: v for k, v in cfg.items() if k in ("nx", "ny", "symmetry", "side", "model", "groundplane", "S_ref_type",
                                               "with_viscous", "with_wave", "struct_weight_relief",
                                               "distributed_fuel_weight", "n_point_masses", "fem_origin", "yshift", "ref_axis_pos", "flip")}
    if not c.get("symmetry", True):
        c.pop("side", None)
        if c.get("ny", 3) % 2 == 0:
            c["ny"] += 1
    c.update(kw)
    if "k_lam" in cfg:
        c["extra"] = dict(c.get("extra") or {}, k_lam=cfg["k_lam"])
    return surface(**c)


def two_surfaces(cfg):
    """wing with cfg shape + a tail of a different shape and symmetry flag"""
    s1 = surf_of(cfg, name="wing")
    if cfg.get("nsurf", 1) == 1:
        return [s1]
    gp = cfg.get("groundplane", False)
    s2 = surface(name="tail", nx=3 if cfg["nx"] == 2 else 2, ny=3 if gp or cfg.get("tail_sym") else 3,
                 symmetry=True if gp else cfg.get("tail_sym", not cfg.get("symmetry", True)),
                 side=cfg.get("tail_side", "left"), groundplane=gp, xshift=3.0)
    if cfg.get("nsurf", 1) == 2:
        return [s1, s2]
    s3 = surface(name="fin", nx=3, ny=2 if gp else 3, symmetry=True if gp else False, side="right", groundplane=gp, xshift=5.0)
    return [s1, s2, s3]


# ------------------------------------------------------------------------------------------- geometry transformations

def _sib(cfg):
    """another configuration of the same kind: same names and switches, one more spanwise node"""
    d = dict(cfg)
    d["ny"] = cfg.get("ny", 3) + 1
    return d


PKG_PROPS = {"aerodynamics": ("C04", "C05", "C06", "C07", "C08", "C09", "C18", "C19"), "structures": ("C04", "C07", "C10", "C15", "C16"),
             "transfer": ("C04", "C07", "C11"), "functionals": ("C04", "C06", "C17"), "geometry": ("C04", "C07", "C13"), "common": ("C17",),
             "mphys": ("C19", "C11")}


def _twin(name, f, cfgs, ranges, path=None):
    """iso.<name>: the isolation clause alone (C20), for the configurations of deriv.<name>;
    hist.<name>: the compute-history clause alone, as part of the check of every property that speaks about the outputs of
    components of that package (their statements quantify over inputs, not over what the instance computed before)"""
    @job("iso." + name, ("C20",), cfgs=cfgs, ranges=ranges, cost=0.3)
    def _g(env, **cfg):
        env.only_isolation = True
        f(env, **cfg)
    props = PKG_PROPS.get((path or "").split(".")[0])
    if props:
        @job("hist." + name, props, cfgs=cfgs, ranges=ranges, cost=0.4)
        def _h(env, **cfg):
            env.only_history = ",".join(props)
            f(env, **cfg)
    return _g


def _geo(name, path, opts, ranges=(), cfgs=None, cost=1.0, **dk):
    cfgs = cfgs or product(shapes_1surf(), SYM_Q)

    @job("deriv." + name, ("C01", "C02", "C03"), cfgs=cfgs, ranges=ranges, cost=cost)
    def _f(env, **cfg):
        env.add_ranges(*MESH_RANGES)
        derivative_contract(env, lambda: cls(path)(**opts(cfg)), sibling=lambda: cls(path)(**opts(_sib(cfg))), **dk)
    _twin(name, _f, cfgs, ranges, path)
    return _f


def _shape(cfg):
    ny = cfg["ny"]
    if not cfg["symmetry"] and ny % 2 == 0:
        ny += 1
    return (cfg["nx"], ny, 3)


_geo("Sweep", "geometry.geometry_mesh_transformations.Sweep",
     lambda c: dict(val=0.0, mesh_shape=_shape(c), symmetry=c["symmetry"]), ranges=[(r"^(P\.)?sweep", 5.0, 30.0)])
_geo("Dihedral", "geometry.geometry_mesh_transformations.Dihedral",
     lambda c: dict(val=0.0, mesh_shape=_shape(c), symmetry=c["symmetry"]), ranges=[(r"^(P\.)?dihedral", 2.0, 15.0)])
_geo("ShearX", "geometry.geometry_mesh_transformations.ShearX", lambda c: dict(val=np.zeros(_shape(c)[1]), mesh_shape=_shape(c)))
_geo("ShearY", "geometry.geometry_mesh_transformations.ShearY", lambda c: dict(val=np.zeros(_shape(c)[1]), mesh_shape=_shape(c)))
_geo("ShearZ", "geometry.geometry_mesh_transformations.ShearZ", lambda c: dict(val=np.zeros(_shape(c)[1]), mesh_shape=_shape(c)))
_geo("ScaleX", "geometry.geometry_mesh_transformations.ScaleX",
     lambda c: dict(val=np.ones(_shape(c)[1]), mesh_shape=_shape(c), ref_axis_pos=c.get("ref_axis_pos", 0.25)),
     cfgs=product(shapes_1surf(), [dict(symmetry=True)], [dict(ref_axis_pos=0.25), dict(ref_axis_pos=1.0, _tier=T), dict(ref_axis_pos=0.0, _tier=T)]))
_geo("Stretch", "geometry.geometry_mesh_transformations.Stretch",
     lambda c: dict(val=1.0, mesh_shape=_shape(c), symmetry=c["symmetry"], ref_axis_pos=c.get("ref_axis_pos", 0.25)),
     cfgs=product(shapes_1surf(), SYM_Q, [dict(ref_axis_pos=0.25), dict(ref_axis_pos=0.6, _tier=T)]))
_geo("Rotate", "geometry.geometry_mesh_transformations.Rotate",
     lambda c: dict(val=np.zeros(_shape(c)[1]), mesh_shape=_shape(c), symmetry=c["symmetry"],
                    ref_axis_pos=c.get("ref_axis_pos", 0.25)),
     ranges=[(r"^(P\.)?twist", 2.0, 12.0)], cost=10.0,
     cfgs=product(shapes_1surf(thorough=((3, 3), (2, 4))), SYM_Q, [dict(ref_axis_pos=0.25), dict(ref_axis_pos=0.7, _tier=T)]))
_geo("Rotate.no_x", "geometry.geometry_mesh_transformations.Rotate",
     lambda c: dict(val=np.zeros(_shape(c)[1]), mesh_shape=_shape(c), symmetry=c["symmetry"], rotate_x=False,
                    ref_axis_pos=c.get("ref_axis_pos", 0.25)),
     ranges=[(r"^(P\.)?twist", 2.0, 12.0)], cost=5.0,
     cfgs=product([dict(nx=2, ny=3), dict(nx=3, ny=2)], SYM_Q, [dict(ref_axis_pos=0.25), dict(ref_axis_pos=0.7, _tier=T)]))


@job("deriv.Taper", ("C01", "C02", "C03"), ranges=[(r"^(P\.)?taper", 0.3, 0.9)],
     cfgs=product(shapes_1surf(), SYM, [dict(ref_axis_pos=0.25), dict(ref_axis_pos=0.5, _tier=T)]))
def _taper(env, **cfg):
    m = mesh(cfg["nx"], _shape(cfg)[1], cfg["symmetry"], cfg.get("side", "left"))
    derivative_contract(env, lambda: cls("geometry.geometry_mesh_transformations.Taper")(
        val=1.0, mesh=m.copy(), symmetry=cfg["symmetry"], ref_axis_pos=cfg["ref_axis_pos"]))


# ------------------------------------------------------------------------------------------- single-surface components

def _surf(name, path, cfgs=None, ranges=(), cost=1.0, extra_opts=None, surf_kw=None, **dk):
    cfgs = cfgs or product(shapes_1surf(), SYM_Q)

    @job("deriv." + name, ("C01", "C02", "C03"), cfgs=cfgs, ranges=ranges, cost=cost)
    def _f(env, **cfg):
        env.add_ranges(*MESH_RANGES)

        def opts(c):
            o = dict(surface=surf_of(c, **(surf_kw or {})))
            if extra_opts:
                o.update(extra_opts(c) if callable(extra_opts) else extra_opts)
            return o
        o = opts(cfg)
        derivative_contract(env, lambda: cls(path)(**o), sibling=lambda: cls(path)(**opts(_sib(cfg))), **dk)
    _twin(name, _f, cfgs, ranges, path)
    return _f


def _surfs(name, path, cfgs=None, ranges=(), cost=1.0, extra_opts=None, **dk):
    cfgs = cfgs or MULTI

    @job("deriv." + name, ("C01", "C02", "C03"), cfgs=cfgs, ranges=ranges, cost=cost)
    def _f(env, **cfg):
        env.add_ranges(*MESH_RANGES)

        def opts(c):
            o = dict(surfaces=two_surfaces(c))
            if extra_opts:
                o.update(extra_opts(c) if callable(extra_opts) else extra_opts)
            return o
        o = opts(cfg)
        derivative_contract(env, lambda: cls(path)(**o), sibling=lambda: cls(path)(**opts(_sib(cfg))), **dk)
    _twin(name, _f, cfgs, ranges, path)
    return _f


MULTI = [dict(nx=2, ny=3, symmetry=True, side="left", nsurf=1),
         dict(nx=2, ny=3, symmetry=False, nsurf=1),
         dict(nx=2, ny=2, symmetry=True, side="right", nsurf=3),
         dict(nx=2, ny=3, symmetry=True, side="left", nsurf=2, _tier=T),
         dict(nx=3, ny=2, symmetry=True, side="right", nsurf=1),
         dict(nx=3, ny=3, symmetry=True, side="right", nsurf=1, _tier=T),
         dict(nx=2, ny=4, symmetry=True, side="left", nsurf=1, _tier=T)]
MULTI_GP = MULTI + [dict(nx=2, ny=3, symmetry=True, side="left", nsurf=1, groundplane=True),
                    dict(nx=2, ny=3, symmetry=True, side="right", nsurf=2, groundplane=True)]

AREA = [dict(S_ref_type="wetted"), dict(S_ref_type="projected")]

_surf("VLMGeometry", "aerodynamics.geometry.VLMGeometry", cfgs=product(shapes_1surf(), SYM_Q, AREA), cost=20)
_surf("LiftDrag", "aerodynamics.lift_drag.LiftDrag")
_surf("LiftCoeff2D", "aerodynamics.lift_coeff_2D.LiftCoeff2D")
_surf("TotalDrag", "aerodynamics.total_drag.TotalDrag")
_surf("TotalLift", "aerodynamics.total_lift.TotalLift")
_surf("ViscousDrag", "aerodynamics.viscous_drag.ViscousDrag", extra_opts=dict(with_viscous=True), cost=10,
      # every laminar/turbulent branch of the friction estimate: fully turbulent, blended, fully laminar
      cfgs=product(shapes_1surf(), SYM_Q, [dict(), dict(k_lam=0.0), dict(k_lam=1.0)]),
      ranges=[(r"^(P\.)?re", 1e5, 1e6), (r"^(P\.)?Mach", 0.2, 0.8), (r"^(P\.)?t_over_c", 0.05, 0.2), (r"cos_sweep", 0.7, 1.0)])
_surf("ViscousDrag.off", "aerodynamics.viscous_drag.ViscousDrag", extra_opts=dict(with_viscous=False))
# (the fourth power of the area-weighted averages makes the terms of WaveDrag grow too fast for more than two spanwise panels:
# ny = 4 did not finish in 3000 s; bounded at ny <= 3)
_surf("WaveDrag", "aerodynamics.wave_drag.WaveDrag", cfgs=product(shapes_1surf(thorough=((3, 3),)), SYM_Q), ranges=[(r"^(P\.)?Mach", 0.5, 0.9), (r"t_over_c", 0.05, 0.2), (r"cos_sweep", 0.7, 1.0), (r"CL", 0.2, 0.6)])
_surf("WaveDrag.off", "aerodynamics.wave_drag.WaveDrag", surf_kw=dict(with_wave=False))


@job("deriv.Coeffs", ("C01", "C02", "C03"))
def _coeffs(env):
    derivative_contract(env, lambda: cls("aerodynamics.coeffs.Coeffs")())


_surfs("CollocationPoints", "aerodynamics.collocation_points.CollocationPoints")
_surfs("VortexMesh", "aerodynamics.vortex_mesh.VortexMesh", cfgs=MULTI_GP)
_surfs("GetVectors", "aerodynamics.get_vectors.GetVectors", cfgs=MULTI_GP,
       extra_opts=dict(num_eval_points=2, eval_name="coll_pts"))
def npanels(cfg):
    return sum((s["mesh"].shape[0] - 1) * (s["mesh"].shape[1] - 1) for s in two_surfaces(cfg))


_surfs("EvalVelocities", "aerodynamics.eval_velocities.EvalVelocities",
       extra_opts=lambda cfg: dict(num_eval_points=npanels(cfg), eval_name="force_pts"))
_surfs("HorseshoeCirculations", "aerodynamics.horseshoe_circulations.HorseshoeCirculations")
_surfs("MeshPointForces", "aerodynamics.mesh_point_forces.MeshPointForces")
_surfs("VLMMtxRHSComp", "aerodynamics.mtx_rhs.VLMMtxRHSComp")
_surfs("PanelForces", "aerodynamics.panel_forces.PanelForces")
_surfs("PanelForcesSurf", "aerodynamics.panel_forces_surf.PanelForcesSurf")
_surfs("RotationalVelocity", "aerodynamics.rotational_velocity.RotationalVelocity")
_surfs("ConvertVelocity", "aerodynamics.convert_velocity.ConvertVelocity")
_surfs("ConvertVelocity.rot", "aerodynamics.convert_velocity.ConvertVelocity", extra_opts=dict(rotational=True))
_surfs("ScaleToPrandtlGlauert", "aerodynamics.pg_scale.ScaleToPrandtlGlauert", extra_opts=dict(rotational=True), ranges=[(r"Mach", 0.1, 0.8)])
_surfs("ScaleFromPrandtlGlauert", "aerodynamics.pg_scale.ScaleFromPrandtlGlauert", ranges=[(r"Mach", 0.1, 0.8)])
_surfs("RotateToWindFrame", "aerodynamics.pg_wind_rotation.RotateToWindFrame", extra_opts=dict(rotational=True))
_surfs("RotateFromWindFrame", "aerodynamics.pg_wind_rotation.RotateFromWindFrame")


# ------------------------------------------------------------------------------------------- structures / transfer

NY = [dict(nx=2, ny=3), dict(nx=3, ny=2), dict(nx=2, ny=2, _tier=T), dict(nx=2, ny=4, _tier=T), dict(nx=3, ny=5, _tier=T)]
TUBE = [dict(model="tube")]
BOX = [dict(model="wingbox")]
MODELS = [dict(model="tube"), dict(model="wingbox")]
POS = [(r"(^|\.)(A|Iy|Iz|J|radius|thickness|element_lengths|Qz|A_enc|A_int|spar_thickness|skin_thickness|htop|hbottom|hfront|hrear|"
        r"structural_mass|element_mass|fuel_mass|W0|CT|R|speed_of_sound|rho|v|S_ref|re|fuelburn)\b", 0.4, 1.6)]
NODES = [(r"nodes.*\]\[1\]$", -3.0, 3.0)]


def _struct(name, path, models=MODELS, sym=SYM_Q, ny=NY, **kw):
    return _surf(name, path, cfgs=product(ny, sym, models), ranges=tuple(kw.pop("ranges", ())) + tuple(POS), **kw)


_struct("ComputeNodes", "structures.compute_nodes.ComputeNodes")
_struct("Length", "structures.length.Length", models=TUBE)
_struct("Transform", "structures.transform.Transform", models=TUBE, cost=5)
_struct("LocalStiff", "structures.local_stiff.LocalStiff", models=TUBE)
_struct("LocalStiffPermuted", "structures.local_stiff_permuted.LocalStiffPermuted", models=TUBE, cost=5)
_struct("LocalStiffTransformed", "structures.local_stiff_transformed.LocalStiffTransformed", models=TUBE, cost=30)
_struct("Weight", "structures.weight.Weight", models=TUBE)
_struct("StructuralCG", "structures.structural_cg.StructuralCG", models=TUBE)
def _create_rhs_pre(env, h):
    # documented exemption: the tiny-load zeroing region |force| < 1e-6; clauses are stated on the branch where the
    # mask keeps the load (indicator == 0 for "abs(force) < 1e-6")
    env.indicator_branch = 0
    env.note("CreateRHS: obligations stated on the branch |force| >= 1e-6 (documented exemption region excluded)")


_struct("CreateRHS", "structures.create_rhs.CreateRHS", models=TUBE, pre=_create_rhs_pre,
        ranges=[(r"total_loads", 1.0, 5.0)])
_struct("Disp", "structures.disp.Disp", models=TUBE)
_struct("Energy", "structures.energy.Energy", models=TUBE)
_struct("FailureExact", "structures.failure_exact.FailureExact")
_struct("FailureKS", "structures.failure_ks.FailureKS", pre=lambda env, h: env.generic_position(True),
        ranges=[(r"vonmises", 5e7, 3e8)])
_struct("SectionPropertiesTube", "structures.section_properties_tube.SectionPropertiesTube", models=TUBE,
        ranges=[(r"thickness", 0.1, 0.3), (r"radius", 0.5, 1.0)])
_struct("NonIntersectingThickness", "structures.non_intersecting_thickness.NonIntersectingThickness", models=TUBE)
_struct("VonMisesTube", "structures.vonmises_tube.VonMisesTube", models=TUBE, cost=20,
        pre=lambda env, h: env.use_helpers("structures_utils"))
_struct("VonMisesWingbox", "structures.vonmises_wingbox.VonMisesWingbox", models=BOX, cost=20)
_struct("SectionPropertiesWingbox", "structures.section_properties_wingbox.SectionPropertiesWingbox", models=BOX)
_struct("WingboxGeometry", "structures.wingbox_geometry.WingboxGeometry", models=BOX)
_struct("WingboxFuelVol", "structures.fuel_vol.WingboxFuelVol", models=BOX)
_struct("WingboxFuelVolDelta", "structures.wingbox_fuel_vol_delta.WingboxFuelVolDelta", models=BOX)
_struct("FuelLoads", "structures.fuel_loads.FuelLoads", models=BOX)
_struct("SparWithinWing", "structures.spar_within_wing.SparWithinWing", models=TUBE)
_struct("StructureWeightLoads", "structures.wing_weight_loads.StructureWeightLoads", models=TUBE, cost=10)
_struct("ComputePointMassLoads", "structures.compute_point_mass_loads.ComputePointMassLoads", models=TUBE,
        surf_kw=dict(n_point_masses=2))
_struct("ComputeThrustLoads", "structures.compute_thrust_loads.ComputeThrustLoads", models=TUBE,
        surf_kw=dict(n_point_masses=2))
_struct("TotalLoads", "structures.total_loads.TotalLoads", models=TUBE)
_struct("TotalLoads.all", "structures.total_loads.TotalLoads", models=TUBE,
        surf_kw=dict(struct_weight_relief=True, distributed_fuel_weight=True, n_point_masses=1))
_struct("RadiusComp", "geometry.radius_comp.RadiusComp", models=TUBE)
_struct("LoadTransfer", "transfer.load_transfer.LoadTransfer")
_struct("DisplacementTransfer", "transfer.displacement_transfer.DisplacementTransfer", models=TUBE, cost=5)
_struct("ComputeTransformationMatrix", "transfer.compute_transformation_matrix.ComputeTransformationMatrix", models=TUBE, cost=5)

_surf("MonotonicConstraint", "geometry.monotonic_constraint.MonotonicConstraint", extra_opts=dict(var_name="chord"),
      cfgs=product(NY, SYM_Q))

# ------------------------------------------------------------------------------------------- functionals / common

_surfs("BreguetRange", "functionals.breguet_range.BreguetRange", ranges=POS + [(r"CL|CD", 0.2, 0.6), (r"Mach", 0.3, 0.8)])
_surfs("CenterOfGravity", "functionals.center_of_gravity.CenterOfGravity", ranges=POS)
_surfs("Equilibrium", "functionals.equilibrium.Equilibrium", ranges=POS)
_surfs("MomentCoefficient", "functionals.moment_coefficient.MomentCoefficient", ranges=POS)
_surfs("SumAreas", "functionals.sum_areas.SumAreas", ranges=POS)
_surfs("TotalLiftDrag", "functionals.total_lift_drag.TotalLiftDrag", ranges=POS)


@job("deriv.ReynoldsComp", ("C01", "C02", "C03"), ranges=POS + [(r"mu", 0.5, 1.5)])
def _reynolds(env):
    derivative_contract(env, lambda: cls("common.reynolds_comp.ReynoldsComp")())


@job("deriv.MultiCD", ("C01", "C02", "C03"), cfgs=[dict(n_points=1), dict(n_points=3)])
def _multicd(env, n_points):
    derivative_contract(env, lambda: cls("integration.multipoint_comps.MultiCD")(n_points=n_points))

_surfs("EvalVelMtx", "aerodynamics.eval_mtx.EvalVelMtx", cfgs=MULTI_GP, cost=15,
       extra_opts=dict(num_eval_points=2, eval_name="coll_pts"), pre=lambda env, h: env.use_helpers("eval_mtx"),
       ranges=[(r"vectors", -1.5, 1.5)])

from ._generic import implicit_contract


@job("deriv.SolveMatrix", ("C01", "C02", "C03", "C04", "C05", "C06", "C07", "C08", "C09", "C19"), cfgs=MULTI[:2] + MULTI[3:4], ranges=[(r"^solve\d+_x", 1e-12, 1.0, "log")])
def _solve_matrix(env, **cfg):
    implicit_contract(env, lambda: cls("aerodynamics.solve_matrix.SolveMatrix")(surfaces=two_surfaces(cfg)))


@job("deriv.FEM", ("C01", "C02", "C03", "C04", "C07", "C10", "C15", "C16"), cfgs=product(NY[:3], SYM_Q, TUBE), cost=10, ranges=[(r"^solve\d+_x", 1e-12, 1.0, "log")])
def _fem(env, **cfg):
    def symmetric_blocks(env, h, ins):
        # precondition of FEM (postcondition of LocalStiffTransformed, proved by the kchain.* jobs): every 12x12
        # element block is symmetric
        k = ins["local_stiff_transformed"]
        ks = k.copy()
        for e in range(k.shape[0]):
            for i in range(12):
                for j in range(i):
                    ks[e, i, j] = k[e, j, i]
        d = dict(ins)
        d["local_stiff_transformed"] = ks
        env.assumptions.add("FEM.requires: element blocks of local_stiff_transformed are symmetric (ensured by "
                            "LocalStiffTransformed, proved in the kchain jobs)")
        return d
    implicit_contract(env, lambda: cls("structures.fem.FEM")(surface=surf_of(cfg)), requires=symmetric_blocks)


@job("deriv.AtmosComp", ("C01", "C02", "C03", "C17"), ranges=[(r"altitude", 1000.0, 40000.0), (r"Mach", 0.2, 0.9)])
def _atmos(env):
    env.assumptions.add("scipy Akima1DInterpolator.derivative(1) is the derivative of the interpolant (external contract)")
    derivative_contract(env, lambda: cls("common.atmos_comp.AtmosComp")(), pre=lambda env, h: env.use_helpers("atmos"))


# ------------------------------------------------------------------------------------------- multi-section components

def _sections(nys, nx=2, tc=False):
    secs = []
    for k, ny in enumerate(nys):
        d = dict(name="sec%d" % k, mesh=mesh(nx, ny, False))
        if tc:
            d["t_over_c_cp"] = np.array([0.12])
        secs.append(d)
    return secs


@job("deriv.GeomMultiUnification", ("C01", "C02", "C03", "C14"),
     cfgs=[dict(nys=(3, 3), shift=True, tc=False), dict(nys=(2, 3, 2), shift=True, tc=False), dict(nys=(3, 2), shift=False, tc=False),
           dict(nys=(3, 3), shift=True, tc=True), dict(nys=(3, 4, 2), shift=True, tc=False, _tier=T),
           dict(nys=(2, 3, 2, 2), shift=True, tc=False), dict(nys=(2, 2, 3, 2, 2), shift=True, tc=False, _tier=T)])      # beyond "the adjacent section"
def _unification(env, nys, shift, tc):
    env.add_ranges(*MESH_RANGES)
    derivative_contract(env, lambda: cls("geometry.geometry_unification.GeomMultiUnification")(
        sections=_sections(nys, tc=tc), surface_name="surface", shift_uni_mesh=shift))


@job("deriv.GeomMultiJoin", ("C01", "C02", "C03"),
     cfgs=[dict(nys=(3, 3), dims=((1, 1, 1),)), dict(nys=(2, 3, 2), dims=((1, 0, 1), (0, 1, 1))), dict(nys=(3, 2), dims=()),
           dict(nys=(2, 2, 3, 2), dims=((1, 0, 0), (0, 1, 0), (0, 0, 1))),
           dict(nys=(3, 3, 3), dims=((1, 1, 1), (1, 1, 1), (1, 1, 1)), _tier=T)])
def _join(env, nys, dims):
    env.add_ranges(*MESH_RANGES)
    derivative_contract(env, lambda: cls("geometry.geometry_multi_join.GeomMultiJoin")(
        sections=_sections(nys), dim_constr=[np.array(d) for d in dims]))
