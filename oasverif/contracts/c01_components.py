"""C01 / C03: derivative exactness and history independence of every component (generic clauses of _generic.py
instantiated over the configuration grid).  One job per component class; one run per configuration."""
import importlib
import numpy as np

from ..runner import job
from ..surfaces import surface, mesh
from ._generic import derivative_contract

Q = "quick"
T = "thorough"


def cls(path):
    mod, name = path.rsplit(".", 1)
    return getattr(importlib.import_module("openaerostruct." + mod), name)


def shapes_1surf(quick=((2, 3),), thorough=((3, 3), (2, 4), (3, 5))):
    out = [dict(nx=nx, ny=ny) for nx, ny in quick]
    out += [dict(nx=nx, ny=ny, _tier=T) for nx, ny in thorough]
    return out


def product(*lists):
    out = [{}]
    for l in lists:
        nxt = []
        for a in out:
            for b in l:
                d = dict(a)
                d.update(b)
                if a.get("_tier") == T or b.get("_tier") == T:
                    d["_tier"] = T
                nxt.append(d)
        out = nxt
    return out


SYM = [dict(symmetry=True, side="left"), dict(symmetry=True, side="right", _tier=T), dict(symmetry=False)]
SYM_Q = [dict(symmetry=True, side="left"), dict(symmetry=False)]

MESH_RANGES = [(r"mesh.*\]\[0\]$", -1.0, 1.0)]


def surf_of(cfg, **kw):
    c = {k: v for k, v in cfg.items() if k in ("nx", "ny", "symmetry", "side", "model", "groundplane", "S_ref_type",
                                               "with_viscous", "with_wave", "struct_weight_relief",
                                               "distributed_fuel_weight", "n_point_masses", "fem_origin")}
    if not c.get("symmetry", True):
        c.pop("side", None)
        if c.get("ny", 3) % 2 == 0:
            c["ny"] += 1
    c.update(kw)
    return surface(**c)


def two_surfaces(cfg):
    """wing with cfg shape + a tail of a different shape and symmetry flag"""
    s1 = surf_of(cfg, name="wing")
    if cfg.get("nsurf", 1) == 1:
        return [s1]
    gp = cfg.get("groundplane", False)
    s2 = surface(name="tail", nx=3 if cfg["nx"] == 2 else 2, ny=3 if gp or cfg.get("tail_sym") else 3,
                 symmetry=True if gp else cfg.get("tail_sym", not cfg.get("symmetry", True)),
                 side=cfg.get("tail_side", "left"), groundplane=gp, xshift=3.0)
    return [s1, s2]


# ------------------------------------------------------------------------------------------- geometry transformations

def _geo(name, path, opts, ranges=(), cfgs=None, cost=1.0, **dk):
    @job("deriv." + name, ("C01", "C03"), cfgs=cfgs or product(shapes_1surf(), SYM_Q), ranges=ranges, cost=cost)
    def _f(env, **cfg):
        env.add_ranges(*MESH_RANGES)
        derivative_contract(env, lambda: cls(path)(**opts(cfg)), **dk)
    return _f


def _shape(cfg):
    ny = cfg["ny"]
    if not cfg["symmetry"] and ny % 2 == 0:
        ny += 1
    return (cfg["nx"], ny, 3)


_geo("Sweep", "geometry.geometry_mesh_transformations.Sweep",
     lambda c: dict(val=0.0, mesh_shape=_shape(c), symmetry=c["symmetry"]), ranges=[(r"^(P\.)?sweep", 5.0, 30.0)])
_geo("Dihedral", "geometry.geometry_mesh_transformations.Dihedral",
     lambda c: dict(val=0.0, mesh_shape=_shape(c), symmetry=c["symmetry"]), ranges=[(r"^(P\.)?dihedral", 2.0, 15.0)])
_geo("ShearX", "geometry.geometry_mesh_transformations.ShearX", lambda c: dict(val=np.zeros(_shape(c)[1]), mesh_shape=_shape(c)))
_geo("ShearY", "geometry.geometry_mesh_transformations.ShearY", lambda c: dict(val=np.zeros(_shape(c)[1]), mesh_shape=_shape(c)))
_geo("ShearZ", "geometry.geometry_mesh_transformations.ShearZ", lambda c: dict(val=np.zeros(_shape(c)[1]), mesh_shape=_shape(c)))
_geo("ScaleX", "geometry.geometry_mesh_transformations.ScaleX",
     lambda c: dict(val=np.ones(_shape(c)[1]), mesh_shape=_shape(c), ref_axis_pos=c.get("ref_axis_pos", 0.25)),
     cfgs=product(shapes_1surf(), [dict(symmetry=True)], [dict(ref_axis_pos=0.25), dict(ref_axis_pos=1.0, _tier=T), dict(ref_axis_pos=0.0, _tier=T)]))
_geo("Stretch", "geometry.geometry_mesh_transformations.Stretch",
     lambda c: dict(val=1.0, mesh_shape=_shape(c), symmetry=c["symmetry"], ref_axis_pos=c.get("ref_axis_pos", 0.25)),
     cfgs=product(shapes_1surf(), SYM_Q, [dict(ref_axis_pos=0.25), dict(ref_axis_pos=0.6, _tier=T)]))
_geo("Rotate", "geometry.geometry_mesh_transformations.Rotate",
     lambda c: dict(val=np.zeros(_shape(c)[1]), mesh_shape=_shape(c), symmetry=c["symmetry"],
                    ref_axis_pos=c.get("ref_axis_pos", 0.25)),
     ranges=[(r"^(P\.)?twist", 2.0, 12.0)], cost=10.0,
     cfgs=product(shapes_1surf(thorough=((3, 3), (2, 4))), SYM_Q, [dict(ref_axis_pos=0.25), dict(ref_axis_pos=0.7, _tier=T)]))


@job("deriv.Taper", ("C01", "C03"), ranges=[(r"^(P\.)?taper", 0.3, 0.9)],
     cfgs=product(shapes_1surf(), SYM, [dict(ref_axis_pos=0.25), dict(ref_axis_pos=0.5, _tier=T)]))
def _taper(env, **cfg):
    m = mesh(cfg["nx"], _shape(cfg)[1], cfg["symmetry"], cfg.get("side", "left"))
    derivative_contract(env, lambda: cls("geometry.geometry_mesh_transformations.Taper")(
        val=1.0, mesh=m.copy(), symmetry=cfg["symmetry"], ref_axis_pos=cfg["ref_axis_pos"]))
