"""C04: a half-span symmetric model is equivalent to the full-span model (relational obligations between two symbolic
executions of the real groups; the linear solves are carried by residual-identity lemmas)."""
import numpy as np
from ..runner import job
from .. import gsx, term as S
from ..surfaces import surface
from .c01_components import cls, T, MESH_RANGES
from .c06 import RG

SM = np.array([1, -1, 1])


def s0(x):
    return np.asarray(x).reshape(-1)[0]


def mirror_extend_mesh(mh):
    """full-span mesh of the mirror-symmetric wing whose left half is mh (root column last, on the plane y = 0)"""
    right = (mh[:, :-1, :] * SM)[:, ::-1, :]
    return np.concatenate([mh, right], axis=1)


def half_full_surfaces(nx, ny, viscous, wave, yshift=0.0):
    kw = dict(nx=nx, with_viscous=viscous, with_wave=wave)
    sh = surface(name="wing", ny=ny, symmetry=True, side="left", **kw)
    sf = surface(name="wing", ny=2 * ny - 1, symmetry=False, **kw)
    return sh, sf


def circ_extend(xh, nx, ny):
    """circulations of the full model from those of the half model: mirror image panels carry the same strength"""
    g = np.asarray(xh, dtype=object).reshape(nx - 1, ny - 1)
    return np.concatenate([g, g[:, ::-1]], axis=1).reshape(-1)


def rows_extend(rh, nx, ny):
    r = np.asarray(rh, dtype=object).reshape(nx - 1, ny - 1)
    return np.concatenate([r, r[:, ::-1]], axis=1).reshape(-1)


@job("c04.aero", ("C04",), cfgs=[dict(nx=2, ny=2, viscous=False, wave=False), dict(nx=2, ny=3, viscous=False, wave=False),
                                  dict(nx=2, ny=2, viscous=False, wave=False, compressible=True),
                                  dict(nx=3, ny=3, viscous=False, wave=False, _tier=T)],
     ranges=RG + [(r"Mach", 0.78, 0.9)], cost=30)
def aero(env, nx, ny, viscous, wave, compressible=False):
    xp = env.xp
    sh, sf = half_full_surfaces(nx, ny, viscous, wave)
    gh = gsx.GroupSX(env, gsx.aero_model([sh], compressible=compressible), key="H")
    gf = gsx.GroupSX(env, gsx.aero_model([sf], compressible=compressible), key="F")
    if env.sym:
        env.use_helpers("eval_mtx")
    mh = env.var("mesh", (nx, ny, 3))
    mh[:, -1, 1] = 0 * mh[:, -1, 1]                         # the root section lies on the symmetry plane
    common = dict(alpha=env.var("alpha", (1,)), v=env.var("v", (1,)), rho=env.var("rho", (1,)), beta=env.const(np.zeros(1)),
                  Mach_number=env.var("Mach_number", (1,)), re=env.var("re", (1,)))
    cg = env.var("cg", (3,))
    cg[1] = 0 * cg[1]
    common["cg"] = cg
    toc = env.var("t_over_c", (ny - 1,))
    mf = mirror_extend_mesh(mh)
    tocf = np.concatenate([toc, toc[::-1]])
    state = {}

    def both():
        vh_ = gh.run(dict(common, wing_def_mesh=mh, wing_t_over_c=toc))
        sh_ = list(gh.solves)
        state["sh"] = sh_
        if env.sym:
            vf_ = gf.run(dict(common, wing_def_mesh=mf, wing_t_over_c=tocf),
                         hints={"solve_matrix": lambda rec: circ_extend(sh_[0]["x"], nx, ny)})
        else:
            vf_ = gf.run(dict(common, wing_def_mesh=mf, wing_t_over_c=tocf))
        return vh_, vf_

    for path, (vh, vf) in env.explore(both):
        tag = (" @path(" + ";".join("%s=%s" % (repr(c)[:50], "T" if b else "F") for c, b in path) + ")") if (env.sym and path) else ""
        _compare(env, gh, gf, vh, vf, state, nx, ny, viscous, wave, tag)


def _compare(env, gh, gf, vh, vf, state, nx, ny, viscous, wave, tag):
    if env.sym:
        rh = state["sh"][0]
        from ..spshim import _mm
        Ah = rh["A"].T if rh["trans"] else rh["A"]
        res_h = _mm(Ah, np.asarray(rh["x"], dtype=object).reshape(-1)) - np.asarray(rh["b"], dtype=object).reshape(-1)
        env.eq("C04", "solve lemma: the mirror-extended half-model circulations satisfy the full-model tangency system "
                      "(A_F phi - b_F == E (A_H x - b_H))" + tag, gf.solves[0]["residual_at_phi"], rows_extend(res_h, nx, ny))
        env.assumptions.add("non-singular AIC matrices (uniqueness of the circulations of the full model)")
    fh = gh.get(vh, "ap.aero_states.wing_sec_forces")
    ff = gf.get(vf, "ap.aero_states.wing_sec_forces")
    env.eq("C04", "aerodynamic forces on the modelled half agree" + tag, ff[:, :ny - 1, :], fh)
    env.eq("C04", "reference area agrees (the half model accounts for both halves)" + tag, gf.get(vf, "ap.wing.S_ref"), gh.get(vh, "ap.wing.S_ref"))
    for q in ("CL", "CM"):
        env.eq("C04", "aircraft %s agrees" % q + tag, gf.get(vf, "ap." + q), gh.get(vh, "ap." + q))
    env.eq("C04", "induced drag coefficient agrees" + tag, gf.get(vf, "ap.wing_perf.CDi"), gh.get(vh, "ap.wing_perf.CDi"))
    if viscous:
        env.eq("C04", "viscous drag coefficient agrees" + tag, gf.get(vf, "ap.wing_perf.CDv"), gh.get(vh, "ap.wing_perf.CDv"))
    if wave:
        env.eq("C04", "wave drag coefficient agrees" + tag, gf.get(vf, "ap.wing_perf.CDw"), gh.get(vh, "ap.wing_perf.CDw"))
    env.eq("C04", "total drag coefficient agrees" + tag, gf.get(vf, "ap.CD"), gh.get(vh, "ap.CD"))


PANELWISE = ("widths", "lengths_spanwise", "cos_sweep", "t_over_c")
NODEWISE = ("chords", "lengths")


def ext_nodes(a):
    """node-based spanwise array of the half (root last) -> full span"""
    a = np.asarray(a)
    return np.concatenate([a, a[:-1][::-1]])


def ext_panels(a):
    a = np.asarray(a)
    return np.concatenate([a, a[::-1]])


@job("c04.geometry", ("C04",), cfgs=[dict(nx=2, ny=2), dict(nx=2, ny=3), dict(nx=3, ny=3, _tier=T)], ranges=RG, cost=10)
def geometry(env, nx, ny):
    """VLMGeometry of the half model vs the full model of the same mirror-symmetric wing (wetted and projected area)"""
    for kind in ("wetted", "projected"):
        sh = surface(name="wing", nx=nx, ny=ny, symmetry=True, side="left", S_ref_type=kind)
        sf = surface(name="wing", nx=nx, ny=2 * ny - 1, symmetry=False, S_ref_type=kind)
        hh = env.comp("H" + kind, lambda sh=sh: cls("aerodynamics.geometry.VLMGeometry")(surface=sh))
        hf = env.comp("F" + kind, lambda sf=sf: cls("aerodynamics.geometry.VLMGeometry")(surface=sf))
        mh = env.var("mesh", (nx, ny, 3))
        mh[:, -1, 1] = 0 * mh[:, -1, 1]
        oh = hh.compute(dict(def_mesh=mh))
        of = hf.compute(dict(def_mesh=mirror_extend_mesh(mh)))
        env.eq("C04", "reference area of the half model accounts for both halves [%s]" % kind, of["S_ref"], oh["S_ref"])
        if kind == "projected":
            continue
        for q in ("widths", "lengths_spanwise", "cos_sweep"):
            if q in oh:
                env.eq("C04", "geometry: %s of the full model is the mirror extension of the half model" % q, of[q], ext_panels(oh[q]))
        for q in ("chords", "lengths"):
            env.eq("C04", "geometry: %s of the full model is the mirror extension of the half model" % q, of[q], ext_nodes(oh[q]))
        env.eq("C04", "geometry: normals agree on the modelled half", of["normals"][:, :ny - 1, :], oh["normals"])
        env.eq("C04", "geometry: normals of the other half are the mirror image", of["normals"][:, ny - 1:, :], (oh["normals"] * SM)[:, ::-1, :])


@job("c04.drag", ("C04",), cfgs=[dict(nx=2, ny=2), dict(nx=2, ny=2, k_lam=0.0), dict(nx=2, ny=2, k_lam=1.0), dict(nx=2, ny=3, _tier=T)], cost=30,
     ranges=[(r"^re", 1e5, 1e6), (r"Mach", 0.8, 0.9), (r"t_over_c", 0.05, 0.2), (r"cos_sweep|widths|lengths|chords", 0.7, 1.3),
             (r"S_ref", 2.0, 4.0), (r"CL", 0.3, 0.6)])
def drag(env, nx, ny, k_lam=0.05):
    """viscous and wave drag coefficients of the half model vs the full model, inputs related by mirror extension (the
    relation of the inputs is proved by c04.geometry); every laminar/turbulent branch of the friction estimate"""
    sh = surface(name="wing", nx=nx, ny=ny, symmetry=True, side="left", extra=dict(k_lam=k_lam))
    sf = surface(name="wing", nx=nx, ny=2 * ny - 1, symmetry=False, extra=dict(k_lam=k_lam))
    vh = env.comp("vH", lambda: cls("aerodynamics.viscous_drag.ViscousDrag")(surface=sh, with_viscous=True))
    vf = env.comp("vF", lambda: cls("aerodynamics.viscous_drag.ViscousDrag")(surface=sf, with_viscous=True))
    ins = vh.inputs()
    insf = {}
    for n in vh.in_names:
        a = np.asarray(ins[n])
        if n in PANELWISE:
            insf[n] = ext_panels(a)
        elif n in NODEWISE:
            insf[n] = ext_nodes(a)
        else:
            insf[n] = a
    env.eq("C04", "viscous drag coefficient of the half model equals that of the full model", vf.compute(insf)["CDv"], vh.compute(ins)["CDv"])
    wh = env.comp("wH", lambda: cls("aerodynamics.wave_drag.WaveDrag")(surface=sh))
    wf = env.comp("wF", lambda: cls("aerodynamics.wave_drag.WaveDrag")(surface=sf))
    ins = wh.inputs()
    insf = {}
    for n in wh.in_names:
        a = np.asarray(ins[n])
        if n in PANELWISE:
            insf[n] = ext_panels(a)
        elif n in NODEWISE:
            insf[n] = ext_nodes(a)
        else:
            insf[n] = a

    def both():
        return wh.compute(ins)["CDw"], wf.compute(insf)["CDw"]
    for path, (ch, cf) in env.explore(both):
        tag = (" @path(%s)" % ";".join("T" if b else "F" for c, b in path)) if (env.sym and path) else ""
        env.eq("C04", "wave drag coefficient of the half model equals that of the full model" + tag, cf, ch)


GT = "geometry.geometry_mesh_transformations."


@job("c04.geometry_dvs", ("C04", "C07", "C13"), cfgs=[dict(nx=2, ny=2), dict(nx=2, ny=3), dict(nx=3, ny=3, _tier=T)],
     ranges=RG + [(r"sweep|dihedral|twist", 2.0, 20.0), (r"taper", 0.3, 0.9), (r"chord", 0.6, 1.4), (r"span", 2.0, 6.0)], cost=10)
def geometry_dvs(env, nx, ny):
    """every mesh transformation applied to the half mesh (symmetry on) and to the mirror-extended full mesh (symmetry off)
    with the same design-variable values gives a full mesh that is the mirror extension of the half mesh"""
    from ..surfaces import mesh as mkmesh
    nyf = 2 * ny - 1
    mh = env.var("in_mesh", (nx, ny, 3))
    mh[:, -1, 1] = 0 * mh[:, -1, 1]
    for i in range(1, nx):
        mh[i, :, 1] = mh[0, :, 1]
    mf = mirror_extend_mesh(mh)

    def pair(klass, dv, node_dv=False, **o):
        oh = dict(o)
        of = dict(o)
        val = np.zeros(ny) if node_dv else 0.0
        if "symmetry" in _opts(klass):
            oh["symmetry"], of["symmetry"] = True, False
        h = env.comp(klass + "H", lambda oh=oh: cls(GT + klass)(val=val if not node_dv else np.zeros(ny), mesh_shape=(nx, ny, 3), **oh))
        f = env.comp(klass + "F", lambda of=of: cls(GT + klass)(val=val if not node_dv else np.zeros(nyf), mesh_shape=(nx, nyf, 3), **of))
        x = env.var(dv, (ny,) if node_dv else (1,))
        xf = ext_nodes(x) if node_dv else x
        outh = h.compute({dv: x, "in_mesh": mh})["mesh"]
        outf = f.compute({dv: xf, "in_mesh": mf})["mesh"]
        env.eq("C04,C07,C13", "%s: full-span result is the mirror extension of the half-span result" % klass, outf, mirror_extend_mesh(outh))

    pair("Sweep", "sweep")
    pair("Dihedral", "dihedral")
    pair("Stretch", "span", ref_axis_pos=0.25)
    pair("ScaleX", "chord", node_dv=True, ref_axis_pos=0.25)
    pair("ShearX", "xshear", node_dv=True)
    pair("ShearZ", "zshear", node_dv=True)
    pair("Rotate", "twist", node_dv=True, ref_axis_pos=0.25)
    # Taper reads the planform from its options: concrete mirror-symmetric planform, all taper ratios
    ch = mkmesh(nx, ny, True, "left", span=4.6)            # a half span that is not a whole number
    cf = np.concatenate([ch, (ch[:, :-1, :] * SM)[:, ::-1, :]], axis=1)
    th = env.comp("TaperH", lambda: cls(GT + "Taper")(val=1.0, mesh=ch.copy(), symmetry=True, ref_axis_pos=0.25))
    tf = env.comp("TaperF", lambda: cls(GT + "Taper")(val=1.0, mesh=cf.copy(), symmetry=False, ref_axis_pos=0.25))
    t = env.var("taper", (1,))
    env.eq("C04,C07,C13", "Taper: full-span result is the mirror extension of the half-span result",
           tf.compute(dict(taper=t))["mesh"], mirror_extend_mesh(th.compute(dict(taper=t))["mesh"]))


def _opts(klass):
    import inspect
    return inspect.getsource(cls(GT + klass).initialize)


def extend_mesh_side(mh, side):
    if side == "left":
        return mirror_extend_mesh(mh)
    left = (mh[:, 1:, :] * SM)[:, ::-1, :]
    return np.concatenate([left, mh], axis=1)


def extend_panels_side(a, nx, ny, side):
    g = np.asarray(a, dtype=object).reshape(nx - 1, ny - 1)
    if side == "left":
        return np.concatenate([g, g[:, ::-1]], axis=1).reshape(-1)
    return np.concatenate([g[:, ::-1], g], axis=1).reshape(-1)


@job("c04.aero_multi", ("C04",), cfgs=[dict(sides=("left", "right")), dict(sides=("right", "left"), _tier=T), dict(sides=("right", "right"), _tier=T)],
     ranges=RG, cost=40)
def aero_multi(env, sides):
    """two symmetric surfaces given as (possibly different) mirror halves vs the two full-span surfaces"""
    specs = [("wing", 2, 3, sides[0], 0.0), ("tail", 2, 3, sides[1], 3.0)]
    sh = [surface(name=n, nx=nx, ny=ny, symmetry=True, side=sd, xshift=xs, with_viscous=False, with_wave=False) for n, nx, ny, sd, xs in specs]
    sf = [surface(name=n, nx=nx, ny=2 * ny - 1, symmetry=False, xshift=xs, with_viscous=False, with_wave=False) for n, nx, ny, sd, xs in specs]
    gh = gsx.GroupSX(env, gsx.aero_model(sh), key="H")
    gf = gsx.GroupSX(env, gsx.aero_model(sf), key="F")
    if env.sym:
        env.use_helpers("eval_mtx")
    common = dict(alpha=env.var("alpha", (1,)), v=env.var("v", (1,)), rho=env.var("rho", (1,)), beta=env.const(np.zeros(1)),
                  Mach_number=env.var("Mach_number", (1,)), re=env.var("re", (1,)))
    cg = env.var("cg", (3,))
    cg[1] = 0 * cg[1]
    common["cg"] = cg
    inh, inf = dict(common), dict(common)
    for (n, nx, ny, sd, xs) in specs:
        m = env.var(n + "_mesh", (nx, ny, 3))
        root = -1 if sd == "left" else 0
        m[:, root, 1] = 0 * m[:, root, 1]
        inh[n + "_def_mesh"] = m
        inf[n + "_def_mesh"] = extend_mesh_side(m, sd)
        toc = env.var(n + "_toc", (ny - 1,))
        inh[n + "_t_over_c"] = toc
        inf[n + "_t_over_c"] = np.concatenate([toc, toc[::-1]]) if sd == "left" else np.concatenate([toc[::-1], toc])
    vh = gh.run(inh)
    solves_h = list(gh.solves)

    def ext_all(vec):
        out = []
        k = 0
        for (n, nx, ny, sd, xs) in specs:
            npan = (nx - 1) * (ny - 1)
            out.append(extend_panels_side(np.asarray(vec, dtype=object).reshape(-1)[k:k + npan], nx, ny, sd))
            k += npan
        return np.concatenate(out)
    if env.sym:
        vf = gf.run(inf, hints={"solve_matrix": lambda rec: ext_all(solves_h[0]["x"])})
        rh = solves_h[0]
        from ..spshim import _mm
        Ah = rh["A"].T if rh["trans"] else rh["A"]
        res_h = _mm(Ah, np.asarray(rh["x"], dtype=object).reshape(-1)) - np.asarray(rh["b"], dtype=object).reshape(-1)
        env.eq("C04", "solve lemma (two surfaces, halves %s/%s): mirror-extended circulations satisfy the full tangency system" % sides,
               gf.solves[0]["residual_at_phi"], ext_all(res_h))
        env.assumptions.add("non-singular AIC matrices (uniqueness of the circulations of the full model)")
    else:
        vf = gf.run(inf)
    for (n, nx, ny, sd, xs) in specs:
        fh = gh.get(vh, "ap.aero_states.%s_sec_forces" % n)
        ff = gf.get(vf, "ap.aero_states.%s_sec_forces" % n)
        part = ff[:, :ny - 1, :] if sd == "left" else ff[:, ny - 1:, :]
        env.eq("C04", "aerodynamic forces on the modelled half agree [%s given as its %s half]" % (n, sd), part, fh)
    for q in ("CL", "CD", "CM"):
        env.eq("C04", "aircraft %s agrees (two surfaces)" % q, gf.get(vf, "ap." + q), gh.get(vh, "ap." + q))


@job("c04.aero_offplane", ("C04",), cfgs=[dict(nx=2, ny=2), dict(nx=2, ny=3, _tier=T)], ranges=RG + [(r"mesh.*\]\[1\]$", -3.0, -0.5)], cost=30)
def aero_offplane(env, nx, ny):
    """a symmetric surface that does not touch the symmetry plane (e.g. a pair of winglets or outboard fins): the half model
    vs the explicit pair of mirror-image surfaces"""
    sh = [surface(name="wing", nx=nx, ny=ny, symmetry=True, side="left", yshift=-1.0, with_viscous=False, with_wave=False)]
    sf = [surface(name="wing", nx=nx, ny=ny, symmetry=False, yshift=-1.0, with_viscous=False, with_wave=False),
          surface(name="wingR", nx=nx, ny=ny, symmetry=False, yshift=1.0, with_viscous=False, with_wave=False)]
    sf[0]["mesh"] = sh[0]["mesh"].copy()
    sf[1]["mesh"] = (sh[0]["mesh"] * SM)[:, ::-1, :].copy()
    gh = gsx.GroupSX(env, gsx.aero_model(sh), key="H")
    gf = gsx.GroupSX(env, gsx.aero_model(sf), key="F")
    if env.sym:
        env.use_helpers("eval_mtx")
    common = dict(alpha=env.var("alpha", (1,)), v=env.var("v", (1,)), rho=env.var("rho", (1,)), beta=env.const(np.zeros(1)),
                  Mach_number=env.var("Mach_number", (1,)), re=env.var("re", (1,)))
    cg = env.var("cg", (3,))
    cg[1] = 0 * cg[1]
    common["cg"] = cg
    m = env.var("mesh", (nx, ny, 3))
    toc = env.var("toc", (ny - 1,))
    vh = gh.run(dict(common, wing_def_mesh=m, wing_t_over_c=toc))
    solves_h = list(gh.solves)
    mr = (m * SM)[:, ::-1, :]

    def ext(vec):
        g = np.asarray(vec, dtype=object).reshape(nx - 1, ny - 1)
        return np.concatenate([g.reshape(-1), g[:, ::-1].reshape(-1)])
    inf = dict(common, wing_def_mesh=m, wingR_def_mesh=mr, wing_t_over_c=toc, wingR_t_over_c=toc[::-1])
    if env.sym:
        vf = gf.run(inf, hints={"solve_matrix": lambda rec: ext(solves_h[0]["x"])})
        rh = solves_h[0]
        from ..spshim import _mm
        Ah = rh["A"].T if rh["trans"] else rh["A"]
        res_h = _mm(Ah, np.asarray(rh["x"], dtype=object).reshape(-1)) - np.asarray(rh["b"], dtype=object).reshape(-1)
        env.eq("C04", "off-plane surface: mirror-extended circulations satisfy the tangency system of the explicit pair",
               gf.solves[0]["residual_at_phi"], ext(res_h))
    else:
        vf = gf.run(inf)
    env.eq("C04", "off-plane surface: aerodynamic forces on the modelled surface agree with the explicit pair",
           gf.get(vf, "ap.aero_states.wing_sec_forces"), gh.get(vh, "ap.aero_states.wing_sec_forces"))


S6 = np.array([1, -1, 1, -1, 1, -1])          # reflection about y = 0 of (ux, uy, uz, rx, ry, rz): vector, pseudo-vector


def ext_nodal6(a, ny):
    """(ny, 6) nodal field of the half (root last) -> (2ny-1, 6) mirror-symmetric field of the full span; the root row is
    kept as it is"""
    a = np.asarray(a)
    return np.concatenate([a, (a[:-1] * S6)[::-1]], axis=0)


@job("c04.struct", ("C04",), cfgs=[dict(ny=2, relief=False), dict(ny=2, relief=True), dict(ny=3, relief=False, _tier=T)],
     ranges=RG + [(r"^A|^I|^J|radius|thickness", 0.5, 1.5), (r"loads", 1.0, 5.0), (r"load_factor", 0.8, 1.5)], cost=60)
def struct(env, ny, relief):
    """structure-alone chain (nodes, stiffness assembly, weight, loads, FEM, displacements, stresses) of the half model vs
    the full model of the same mirror-symmetric wing with mirror-symmetric loads"""
    from .. import spshim
    nx = 2
    sh = surface(name="wing", nx=nx, ny=ny, symmetry=True, side="left", struct_weight_relief=relief)
    sf = surface(name="wing", nx=nx, ny=2 * ny - 1, symmetry=False, struct_weight_relief=relief)
    gh = gsx.GroupSX(env, gsx.struct_model(sh), key="H")
    gf = gsx.GroupSX(env, gsx.struct_model(sf), key="F")
    env.indicator_branch = 0             # loads well above the 1e-6 N zeroing threshold (quantifier of the property)
    mh = env.var("mesh", (nx, ny, 3))
    mh[:, -1, 1] = 0 * mh[:, -1, 1]
    el = {n: env.var(n, (ny - 1,)) for n in ("A", "Iy", "Iz", "J", "radius", "thickness")}
    loads = env.var("loads", (ny, 6))
    extra = dict(load_factor=env.var("load_factor", (1,))) if relief else {}
    vh = gh.run(dict(el, mesh=mh, loads=loads, **extra))
    solves_h = list(gh.solves)
    loads_f = ext_nodal6(loads, ny)
    loads_f[ny - 1] = loads[ny - 1] + loads[ny - 1] * S6          # the centre node carries both halves' share
    inf = dict({n: ext_panels(v) for n, v in el.items()}, mesh=mirror_extend_mesh(mh), loads=loads_f, **extra)

    def ext_aug(x):
        x = np.asarray(x, dtype=object).reshape(-1)
        u = x[:6 * ny].reshape(ny, 6)
        lam = x[6 * ny:]
        return np.concatenate([ext_nodal6(u, ny).reshape(-1), lam + lam * S6])

    def ext_rows(r):
        r = np.asarray(r, dtype=object).reshape(-1)
        u = r[:6 * ny].reshape(ny, 6)
        uf = ext_nodal6(u, ny)
        uf[ny - 1] = u[ny - 1] + u[ny - 1] * S6
        return np.concatenate([uf.reshape(-1), r[6 * ny:]])
    if env.sym:
        vf = gf.run(inf, hints={"fem": lambda rec: ext_aug(solves_h[0]["x"])})
        rh = solves_h[0]
        Ah = rh["A"].T if rh["trans"] else rh["A"]
        res_h = spshim._mm(Ah, np.asarray(rh["x"], dtype=object).reshape(-1)) - np.asarray(rh["b"], dtype=object).reshape(-1)
        # the clamp rows of the half model (1e9 * u_root = 0) give u_root = 0: the identity is stated under that equation
        xr = np.asarray(rh["x"], dtype=object).reshape(-1)[6 * (ny - 1):6 * ny]
        env.eq("C04", "half model: the clamp rows are exactly 1e9 * u_root == 0", res_h[6 * ny:], 10 ** 9 * xr)
        zero_root = {S.var_id(v): S.RF.const(0) for v in xr}
        env.eq("C04", "FEM solve lemma: the mirror-extended half-model displacements (and doubled clamp reactions) satisfy the "
                      "full-model equilibrium equations (given u_root = 0)",
               S.subs_array(gf.solves[0]["residual_at_phi"], zero_root), S.subs_array(ext_rows(res_h), zero_root))
        env.assumptions.add("non-singular clamped stiffness matrix (uniqueness of the displacements of the full model)")
    else:
        vf = gf.run(inf)
    env.eq("C04", "displacements and rotations on the modelled half agree", gf.get(vf, "disp")[:ny], gh.get(vh, "disp"))
    env.eq("C04", "von Mises stresses on the modelled half agree", gf.get(vf, "vonmises")[:ny - 1], gh.get(vh, "vonmises"))
    env.eq("C04", "structural mass agrees (the half model accounts for both halves)", gf.get(vf, "structural_mass"), gh.get(vh, "structural_mass"))
    env.eq("C04", "structural cg agrees", gf.get(vf, "cg_location"), gh.get(vh, "cg_location"))


@job("c04.fuel_pointmass", ("C04",), cfgs=[dict(ny=2), dict(ny=3)],
     ranges=list(RG) + [(r"fuel_vols|fuel_mass|fuelburn", 0.5, 2.0), (r"load_factor", 0.8, 1.5), (r"point_masses", 10.0, 50.0),
                        (r"nodes\[\d+\]\[1\]", -3.0, -0.3), (r"point_mass_locations\[0\]\[1\]", -2.0, -0.5)], cost=5)
def fuel_pointmass(env, ny):
    """fuel loads, fuel-volume margin and point-mass loads of the half model vs the full model of the same mirror-symmetric
    wing (nodes and per-element data mirror-extended; the full model carries every point mass and its mirror image)"""
    xp = env.xp
    sh = surface(name="wing", nx=2, ny=ny, symmetry=True, side="left", model="wingbox", distributed_fuel_weight=True, n_point_masses=1)
    sf = surface(name="wing", nx=2, ny=2 * ny - 1, symmetry=False, model="wingbox", distributed_fuel_weight=True, n_point_masses=2)
    Sm = np.array([1, -1, 1])
    nodes_h = env.var("nodes", (ny, 3))
    nodes_h = np.array(nodes_h, dtype=object if env.sym else float)
    nodes_h[-1, 1] = 0 * nodes_h[-1, 1]                     # the root node lies on the symmetry plane
    nodes_f = np.concatenate([nodes_h, (nodes_h[:-1] * Sm)[::-1]], axis=0)
    vols_h = env.var("fuel_vols", (ny - 1,))
    vols_f = np.concatenate([vols_h, vols_h[::-1]])
    n = env.var("load_factor", ())
    fm = env.var("fuel_mass", ())
    # fuel loads
    fh = env.comp("flH", lambda: cls("structures.fuel_loads.FuelLoads")(surface=sh))
    ff = env.comp("flF", lambda: cls("structures.fuel_loads.FuelLoads")(surface=sf))
    lh = fh.compute(dict(nodes=nodes_h, fuel_vols=vols_h, fuel_mass=fm, load_factor=n))["fuel_weight_loads"]
    lf = ff.compute(dict(nodes=nodes_f, fuel_vols=vols_f, fuel_mass=fm, load_factor=n))["fuel_weight_loads"]
    env.eq("C04", "fuel loads on the free nodes of the modelled half equal those of the full model", lh[:-1], lf[:ny - 1])
    env.eq("C04", "fuel force at the root node of the half model is the modelled half's share of the full model's centre-node force",
           2 * lh[-1, :3], lf[ny - 1, :3])
    # fuel-volume margin
    fb = env.var("fuelburn", ())
    vh = env.comp("fvH", lambda: cls("structures.wingbox_fuel_vol_delta.WingboxFuelVolDelta")(surface=sh))
    vf = env.comp("fvF", lambda: cls("structures.wingbox_fuel_vol_delta.WingboxFuelVolDelta")(surface=sf))
    dh = np.asarray(vh.compute(dict(fuel_vols=vols_h, fuelburn=fb))["fuel_vol_delta"]).reshape(-1)[0]
    df = np.asarray(vf.compute(dict(fuel_vols=vols_f, fuelburn=fb))["fuel_vol_delta"]).reshape(-1)[0]
    env.eq("C04", "fuel-volume margin reported by the half model equals that of the full model (accounts for both halves)", dh, df)
    # point masses
    loc = env.var("point_mass_locations", (1, 3))
    m = env.var("point_masses", (1,))
    ph = env.comp("pmH", lambda: cls("structures.compute_point_mass_loads.ComputePointMassLoads")(surface=sh))
    pf = env.comp("pmF", lambda: cls("structures.compute_point_mass_loads.ComputePointMassLoads")(surface=sf))
    oh = ph.compute(dict(nodes=nodes_h, point_mass_locations=loc, point_masses=m, load_factor=n))["loads_from_point_masses"]
    of = pf.compute(dict(nodes=nodes_f, point_mass_locations=np.concatenate([loc, loc * Sm], axis=0), point_masses=np.concatenate([m, m]),
                         load_factor=n))["loads_from_point_masses"]
    env.eq("C04", "point-mass loads on the free nodes of the modelled half equal those of the full model carrying the mass and its mirror image",
           oh[:-1], of[:ny - 1])


@job("c04.moment_mixed", ("C04", "C17"), cfgs=[dict(kinds=("half", "half")), dict(kinds=("half", "full")), dict(kinds=("full", "half"))], ranges=RG, cost=6)
def moment_mixed(env, kinds):
    """moment coefficient of one mirror-symmetric wing + tail aircraft: each surface given either as its left half (symmetry on)
    or full-span, in every combination - the same CM as with both surfaces full-span (the doubling of the moment and of the mean
    aerodynamic chord follows each surface's own modelling)"""
    xp = env.xp
    specs = [("wing", 3, 3, 0.0), ("tail", 2, 2, 3.0)]
    mk = lambda full: [surface(name=n, nx=nx, ny=(2 * ny - 1) if f else ny, symmetry=not f, side="left", xshift=xs) for (n, nx, ny, xs), f in zip(specs, full)]
    fac = lambda surfs: (lambda: cls("functionals.moment_coefficient.MomentCoefficient")(surfaces=surfs))
    hM = env.comp("mixed", fac(mk([k == "full" for k in kinds])))
    hF = env.comp("full", fac(mk([True, True])))
    cg = env.var("cg", (3,))
    cg[1] = 0 * cg[1]
    common = dict(cg=cg, v=env.var("v", (1,)), rho=env.var("rho", (1,)), S_ref_total=env.var("S_ref_total", (1,)))
    inM, inF = dict(common), dict(common)

    def ext_cols(a, negate_y):
        """left-half array with the spanwise index second -> full-span array (mirror image appended, root column shared when
        the array is nodal); vectors get their y component negated in the image"""
        img = a[:, ::-1] if a.ndim >= 2 else a[::-1]
        if negate_y:
            img = img * np.array([1, -1, 1])
        return img

    for (n, nx, ny, xs), k in zip(specs, kinds):
        b = env.var(n + "_b_pts", (nx - 1, ny, 3))
        b[:, -1, 1] = 0 * b[:, -1, 1]                                  # root on the symmetry plane
        w = env.var(n + "_widths", (ny - 1,))
        c = env.var(n + "_chords", (ny,))
        f = env.var(n + "_sec_forces", (nx - 1, ny - 1, 3))
        Sr = env.var(n + "_S_ref", (1,))
        full = dict()
        full[n + "_b_pts"] = xp.concatenate([b, ext_cols(b, True)[:, 1:]], axis=1)
        full[n + "_widths"] = xp.concatenate([w, w[::-1]])
        full[n + "_chords"] = xp.concatenate([c, c[::-1][1:]])
        full[n + "_sec_forces"] = xp.concatenate([f, ext_cols(f, True)], axis=1)
        full[n + "_S_ref"] = Sr                                          # the reported reference area already counts both halves
        half = {n + "_b_pts": b, n + "_widths": w, n + "_chords": c, n + "_sec_forces": f, n + "_S_ref": Sr}
        inF.update(full)
        inM.update(full if k == "full" else half)
    oM, oF = hM.compute(inM), hF.compute(inF)
    env.eq("C04,C17", "moment coefficient: surfaces modelled %s/%s == both full-span" % kinds, oM["CM"], oF["CM"])
