"""C05: the VLM solution satisfies flow tangency and matches an independently written reference (specs/vlm.py)."""
import numpy as np
from ..runner import job
from .. import core
from .. import gsx, term as S, helpers
from ..specs import vlm
from .c01_components import cls, two_surfaces, T, MESH_RANGES
from .c06 import base_inputs, surfaces_for, RG

# yshift: a full-span surface lying wholly on one side of y = 0 (the code's left/right test reads the option mesh)
CF = [dict(nx=2, ny=3, symmetry=True, side="left", nsurf=1), dict(nx=3, ny=3, symmetry=False, nsurf=1),
      dict(nx=4, ny=3, symmetry=True, side="left", nsurf=1),
      # the two other node orders of a half model: left half listed root first, right half listed tip first
      dict(nx=2, ny=3, symmetry=True, side="left", nsurf=1, flip=True), dict(nx=2, ny=3, symmetry=True, side="right", nsurf=1, flip=True),
      dict(nx=2, ny=3, symmetry=False, nsurf=1, yshift=3.0), dict(nx=2, ny=3, symmetry=False, nsurf=1, yshift=-3.0, _tier=T),
      dict(nx=2, ny=2, symmetry=True, side="right", nsurf=2, tail_sym=False),
      dict(nx=2, ny=2, symmetry=True, side="right", nsurf=3), dict(nx=3, ny=3, symmetry=True, side="right", nsurf=1, _tier=T)]


@job("c05.kernel", ("C05", "C04", "C06", "C07", "C08", "C09", "C19"), ranges=[(r"^(r1|r2|r|u|q1|q2)", -1.5, 1.5), (r"^scale$", 1e-3, 10.0, "log"), (r"^far$", 1e2, 1e7, "log")], cost=3)
def kernel(env):
    """the repository's vortex kernels (full real bodies) equal the textbook Biot-Savart formulas (on the branch where the
    kernel's tolerance mask is inactive)"""
    import openaerostruct.aerodynamics.eval_mtx as E
    xp = env.xp
    KP = "C05,C04,C06,C07,C08,C09,C19"      # every aerodynamic property rests on the kernels
    env.indicator_branch = 1
    env.indicator_only = core.kernel_tol_mask          # only the documented |den| <= 1e-10 guard of the kernels is exempt
    # panel sizes from millimetres to tens of metres (den = |r1||r2| + r1.r2 well above the documented 1e-10 guard)
    sc = env.var("scale", ())
    r1 = env.var("r1", (3,)) * sc
    r2 = env.var("r2", (3,)) * sc
    env.eq(KP, "finite vortex segment == Biot-Savart (r1 x r2)/|r1 x r2|^2 (r1-r2).(r1/|r1| - r2/|r2|) / 4pi",
           env.call(E._compute_finite_vortex, r1, r2), vlm.seg_textbook(xp, r1, r2))
    # pointwise: the velocity one segment induces at one point does not depend on what else is evaluated in the same call
    # (another surface 1e2 ... 1e7 chords away shares the arrays)
    far = env.var("far", ())
    q1 = env.var("q1", (3,)) * far
    q2 = env.var("q2", (3,)) * far
    both = env.call(E._compute_finite_vortex, np.array([r1, q1], dtype=object if env.sym else float), np.array([r2, q2], dtype=object if env.sym else float))
    env.eq(KP, "finite vortex segment is evaluated pointwise: a far-away pair in the same call does not change the near one",
           both[0], env.call(E._compute_finite_vortex, r1, r2))
    env.eq(KP, "... nor the near pair the far one", both[1], env.call(E._compute_finite_vortex, q1, q2))
    u = env.var("u", (3,))
    r = env.var("r", (3,)) * sc
    env.eq(KP, "semi-infinite trailing leg == (u x r) / (|r| (|r| - u.r)) / 4pi",
           env.call(E._compute_semi_infinite_vortex, u, r), vlm.semi_textbook(xp, u, r))


def _kernels(env):
    """kernels used by the reference: the same opaque atoms as the code under test (sym), textbook formulas (native)"""
    xp = env.xp
    if env.sym:
        stubs = helpers.eval_mtx_stubs()
        import openaerostruct.aerodynamics.eval_mtx as E
        helpers.activate(stubs)
        seg = stubs[E._compute_finite_vortex]
        semi = stubs[E._compute_semi_infinite_vortex]
        return (lambda a, b: seg(a, b)), (lambda u, r: semi(u, r))
    def seg_native(a, b):
        # a control point on the axis of the segment (the force point of a panel on its own bound vortex) induces nothing:
        # the usual convention of the textbook formula (Katz & Plotkin, 10.4.5: "if |r1 x r2| < eps the velocity is zero")
        c = np.cross(a, b)
        if (c * c).sum() <= 1e-24 * (a * a).sum() * (b * b).sum():
            return np.zeros(3)
        return vlm.seg_textbook(xp, a, b)
    return seg_native, (lambda u, r: vlm.semi_textbook(xp, u, r))


@job("c05.reference", ("C05", "C04", "C07", "C19"), cfgs=[dict(c, rotational=r) for c in CF for r in (False, True) if not (r and c.get("nsurf", 1) == 3)],
     ranges=RG, cost=20)
def reference(env, rotational, **cfg):
    xp = env.xp
    surfs = surfaces_for(cfg)
    g = gsx.GroupSX(env, gsx.aero_model(surfs, rotational=rotational))
    seg, semi = _kernels(env)
    if env.sym:
        env.assumptions.add("kernel helper contracts (c05.kernel, helper.eval_mtx) are used as opaque atoms in the lattice-level proof")
    given = base_inputs(env, g, surfs)
    vals = g.run(given)
    meshes = [given[s["name"] + "_def_mesh"] for s in surfs]
    specs = [vlm.Surface(m, s["symmetry"]) for m, s in zip(meshes, surfs)]
    lefts = [abs(s["mesh"][0, 0, 1]) > abs(s["mesh"][0, -1, 1]) for s in surfs]
    deg = env.pi / 180
    alpha = np.asarray(given["alpha"]).reshape(-1)[0] * deg
    beta = np.asarray(given["beta"]).reshape(-1)[0] * deg
    v = np.asarray(given["v"]).reshape(-1)[0]
    rho = np.asarray(given["rho"]).reshape(-1)[0]
    omega = given["omega"] if rotational else None
    cg = given["cg"] if rotational else None
    ref = vlm.assemble(xp, specs, lefts, alpha, beta, v, seg, semi, omega, cg)
    n = ref["n"]
    normals = np.concatenate([np.asarray(g.get(vals, "ap.%s.normals" % s["name"])).reshape(-1, 3) for s in surfs], axis=0)
    # normals are unit vectors along the cross product of the panel diagonals
    k = 0
    for s, m in zip(surfs, meshes):
        for i in range(m.shape[0] - 1):
            for j in range(m.shape[1] - 1):
                d = xp.cross(m[i, j + 1] - m[i + 1, j], m[i, j] - m[i + 1, j + 1])
                env.eq("C05,C04,C07,C19", "panel normal is parallel to the cross product of the panel diagonals [%s %d,%d]" % (s["name"], i, j),
                       xp.cross(normals[k], d), 0 * d)
                env.eq("C05,C04,C07,C19", "panel normal has unit length [%s %d,%d]" % (s["name"], i, j), (normals[k] * normals[k]).sum(), 1)
                k += 1
    A, b = vlm.tangency_system(xp, ref, normals)
    if env.sym:
        rec = g.solves[0]
        As = rec["A"].T if rec["trans"] else rec["A"]
        env.eq("C05,C04,C07,C19", "tangency: the solved system matrix is (induction of every ring at every 3/4-chord point) . normal",
               As, np.array(A, dtype=object))
        env.eq("C05,C04,C07,C19", "tangency: the right-hand side is -(free stream + rigid rotation) . normal", np.asarray(rec["b"], dtype=object).reshape(-1),
               np.array(b, dtype=object))
        gamma = np.asarray(rec["x"], dtype=object).reshape(-1)
        env.assumptions.add("non-singular AIC matrix (uniqueness of the circulations)")
    else:
        gamma = np.asarray(g.get(vals, "ap.circulations")).reshape(-1)
        res = np.array(A, dtype=float).dot(gamma) - np.array(b, dtype=float)
        env.eq("C05,C04,C07,C19", "tangency: the solved system matrix is (induction of every ring at every 3/4-chord point) . normal", res, 0 * res)
    F, gh = vlm.panel_forces(xp, ref, specs, gamma, rho)
    k = 0
    for s in surfs:
        f = np.asarray(g.get(vals, "ap.aero_states.%s_sec_forces" % s["name"])).reshape(-1, 3)
        for q in range(f.shape[0]):
            env.eq("C05,C04,C07,C19", "panel force == rho * horseshoe circulation * (onset + induced velocity at the 1/4-chord point) x bound vector [%s %d]" % (s["name"], q),
                   f[q], F[k])
            k += 1


@job("c05.rotational_velocity", ("C05",), cfgs=[dict(nx=2, ny=2, symmetry=True, side="left", nsurf=1), dict(nx=2, ny=2, symmetry=True, side="right", nsurf=2, tail_sym=False)],
     ranges=RG, cost=3)
def rotational_velocity(env, **cfg):
    """the onset velocity due to rigid rotation is omega x (r - cg) at every collocation point - on every branch the
    component takes on the rates (zero rates included), on a fresh instance and on a live one last run with other rates,
    another reference point or other points"""
    from .c16 import runs
    xp = env.xp
    surfs = surfaces_for(cfg)
    fac = lambda: cls("aerodynamics.rotational_velocity.RotationalVelocity")(surfaces=surfs)
    h = env.comp("rv", fac)
    ins = h.inputs()
    om_, cg, pts = np.asarray(ins["omega"]).reshape(3), np.asarray(ins["cg"]).reshape(3), np.asarray(ins["coll_pts"])
    want = xp.cross(om_ + 0 * pts, pts - cg)                  # rigid-body velocity field omega x (r - cg)
    for lab, o in runs(env, "rv", fac, ins):
        env.eq("C05", "rotational velocity == omega x (r - cg) at the collocation points" + lab, o["rotational_velocities"], want)


@job("c05.revisit", ("C05", "C03"), cfgs=[dict(nx=2, ny=2, symmetry=True, side="left", nsurf=1, rotational=False),
                                           dict(nx=2, ny=2, symmetry=True, side="right", nsurf=2, tail_sym=False, rotational=True, _tier=T)],
     ranges=RG, cost=80)
def revisit(env, rotational, **cfg):
    """the third analysis on one live model - after two earlier analyses that differ from it, and from each other, in a single
    input (each flight condition and each mesh in turn: a polar, a sideslip sweep, a shape change) - solves the tangency system
    of a fresh model and reports its forces (anything accumulated or remembered across analyses shows at the third one)"""
    from .c06 import solve_hint, check_solve_relation
    surfs = surfaces_for(cfg)
    build = lambda: gsx.aero_model(surfs, rotational=rotational)
    g0 = gsx.GroupSX(env, build(), key="fresh")
    if env.sym:
        env.use_helpers("eval_mtx")
    given = base_inputs(env, g0, surfs)
    v0 = g0.run(given)
    solves0 = list(g0.solves)
    prev1 = base_inputs(env, g0, surfs, tag="P.")
    prev2 = base_inputs(env, g0, surfs, tag="P2.")
    for k in sorted(given):
        g = gsx.GroupSX(env, build(), key="live." + k)
        S.PATH.mute = True                     # which branches the earlier analyses take is immaterial
        try:
            g.run(dict(given, **{k: prev1[k]}))
            g.run(dict(given, **{k: prev2[k]}))
        finally:
            S.PATH.mute = False
        if env.sym:
            v = g.run(given, hints={"solve_matrix": solve_hint(solves0, 1)})
            check_solve_relation(env, "C05,C03", "third analysis of a live model; %s changed in the first two" % k, g, solves0, 1)
        else:
            v = g.run(given)
        for s in surfs:
            n = s["name"]
            env.eq("C05,C03", "panel forces at the third analysis of a live model equal those of a fresh model; %s changed in the first two [%s]" % (k, n),
                   g.get(v, "ap.aero_states.%s_sec_forces" % n), g0.get(v0, "ap.aero_states.%s_sec_forces" % n))
        for q in ("CL", "CD"):
            env.eq("C05,C03", "aircraft %s at the third analysis of a live model equals that of a fresh model; %s changed in the first two" % (q, k),
                   g.get(v, "ap." + q), g0.get(v0, "ap." + q))


@job("c05.large_lattice", ("C05",), cfgs=[dict(nx=4, ny=60, symmetry=True, side="left", nsurf=1, rotational=False),
                                                 dict(nx=2, ny=130, symmetry=False, nsurf=1, rotational=True, _tier=T)], cost=30)
def large_lattice(env, rotational, **cfg):
    """BOUNDED stand-in, not a proof: the reference clauses of c05.reference evaluated in floating point at one sampled input on a
    lattice of 177 (129) panels - sizes beyond any block size or threshold the array code may use, which the symbolic
    configurations (at most 27 panels) cannot reach.  Tolerance 1e-8 relative to the largest entry of each array."""
    if not env.sym:
        return
    nenv = core.Env("native", seed=env.seed, ranges=RG)
    # a regular wing (the surface's own mesh, every node moved by up to a quarter of a panel, so that no control point lies on the extension of a vortex segment, where the textbook kernel of the reference is singular) instead of a cloud of sampled nodes
    import random as _random
    rnd = _random.Random(env.seed + 17)
    nenv.witness = dict(getattr(nenv, "witness", None) or {})
    for s_ in surfaces_for(cfg):
        m = np.asarray(s_["mesh"], dtype=float)
        h = 0.25 * min(abs(m[1, 0, 0] - m[0, 0, 0]), abs(m[0, 1, 1] - m[0, 0, 1]))
        for idx in np.ndindex(*m.shape):
            nenv.witness["%s_def_mesh[%d][%d][%d]" % ((s_["name"],) + idx)] = float(m[idx]) + h * rnd.uniform(-1, 1)
    reference(nenv, rotational=rotational, **cfg)
    env.functions.update(nenv.functions)
    n = 0
    for name, (dabs, sc, L, R) in nenv.numeric.items():
        n += 1
        worst = float(np.max(dabs)) if np.size(dabs) else 0.0
        scale = max(float(np.max(sc)) if np.size(sc) else 0.0, 1.0)          # inputs are of order one
        ok = np.all(np.isfinite(L)) and np.all(np.isfinite(R)) and worst <= 1e-8 * scale
        if not ok or n <= 3 or "tangency" in name:
            env.holds("C05", "[bounded: one sampled input, %d x %d mesh] %s" % (cfg["nx"], cfg["ny"], name), bool(ok),
                      "largest deviation %.3g on a scale of %.3g" % (worst, scale))
    env.holds("C05", "[bounded] the large-lattice evaluation produced the reference clauses", n > 50, "%d clauses" % n)
    env.assumptions.add("c05.large_lattice is a bounded numerical check at one sampled input (labelled bounded; not counted as proved)")
