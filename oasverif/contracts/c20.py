"""C20: invalid set-ups are rejected loudly; the user's arrays are never modified.
Exception clauses are decided by executing the real set-up code on every member of a finite family of malformed variants
(exhaustive over the stated family, not over all user scripts); finiteness clauses use the undefined-value tracking of the
term engine; repeatability / no hidden state is C03."""
import copy
import itertools
import warnings
import numpy as np
from ..runner import job
from .. import term as S
from ..surfaces import surface
from .c01_components import cls, T
from .c14 import _gm


def _raises(fn):
    try:
        with warnings.catch_warnings():
            warnings.simplefilter("ignore")
            fn()
    except Exception as e:
        return type(e).__name__
    return None


@job("c20.mesh_generator", ("C20",))
def mesh_generator(env):
    from openaerostruct.geometry.utils import generate_mesh
    for num_y in range(2, 12):
        for wt in ("rect", "CRM", "CRM:jig", "crm", "delta", ""):
            d = dict(num_x=2, num_y=num_y, wing_type=wt, symmetry=False)
            got = _raises(lambda: generate_mesh(d))
            want = "ValueError" if num_y % 2 == 0 else ("NameError" if (wt != "rect" and "CRM" not in wt) else None)
            env.holds("C20", "generate_mesh: even num_y -> ValueError, else unknown wing type -> NameError, else a mesh [num_y=%d, type=%r]" % (num_y, wt),
                      got == want, "raised %s, expected %s" % (got, want))
    # unknown keys produce a warning (and only those)
    base = dict(num_x=2, num_y=3, wing_type="rect", symmetry=True)
    for extra in ({}, {"spann": 3.0}, {"offset": np.zeros(3)}, {"num_twist": 3}, {"span": 5.0, "root_chordd": 1.0}):
        with warnings.catch_warnings(record=True) as w:
            warnings.simplefilter("always")
            generate_mesh(dict(base, **extra))
        unknown = [k for k in extra if k not in ("num_x", "num_y", "span_cos_spacing", "chord_cos_spacing", "wing_type", "symmetry", "offset", "span",
                                                 "root_chord", "num_twist_cp")]
        msgs = [str(x.message) for x in w]
        ok = all(any("`%s`" % k in m for m in msgs) for k in unknown) and (bool(unknown) or not any("not implemented" in m for m in msgs))
        env.holds("C20", "generate_mesh warns about exactly the unknown keys %s" % sorted(unknown), ok, str(msgs))


@job("c20.surface_dict_keys", ("C20",))
def surface_dict_keys(env):
    from openaerostruct.utils.check_surface_dict import check_surface_dict_keys
    good = surface(name="wing", nx=2, ny=3)
    for extra in ({}, {"twsit_cp": np.zeros(2)}, {"Symmetry": True}, {"sweeep": 1.0, "spam": 2}):
        with warnings.catch_warnings(record=True) as w:
            warnings.simplefilter("always")
            check_surface_dict_keys(dict(good, **extra))
        msgs = [str(x.message) for x in w]
        env.holds("C20", "check_surface_dict_keys warns about exactly the unknown keys %s" % sorted(extra),
                  len(msgs) == len(extra) and all(any("`%s`" % k in m for m in msgs) for k in extra), str(msgs))
    # every documented key with a suffix, a prefix or a capital is an unknown key of its own (exhaustive over the documented
    # keys: the list is read from the checker's source)
    import ast
    import inspect
    import openaerostruct.utils.check_surface_dict as CS
    documented = sorted({n.value for n in ast.walk(ast.parse(inspect.getsource(CS))) if isinstance(n, ast.Constant) and isinstance(n.value, str)
                         and n.value.isidentifier() and len(n.value) < 40})
    with warnings.catch_warnings(record=True) as w0:
        warnings.simplefilter("always")
        check_surface_dict_keys({k: 1 for k in documented})
    known = [k for k in documented if not any("`%s`" % k in str(x.message) for x in w0)]
    env.holds("C20", "the documented surface keys were found in the checker's source", len(known) > 40, "%d keys" % len(known))
    silent = []
    for k in known:
        for variant in (k + "_x", k + "2", "my_" + k, k.upper() if k.upper() != k else k + "X"):
            if variant in known:
                continue
            with warnings.catch_warnings(record=True) as w:
                warnings.simplefilter("always")
                check_surface_dict_keys(dict(good, **{variant: 1.0}))
            if not any("`%s`" % variant in str(x.message) for x in w):
                silent.append(variant)
    env.holds("C20", "every near-miss of a documented key (suffix, prefix, other case) produces a warning naming it",
              not silent, "accepted silently: %s" % silent[:8])


@job("c20.model_types", ("C20",))
def model_types(env):
    """unknown structural model type / only one of the two wingbox thickness distributions -> NameError at set-up of the
    public structural and aerostructural groups"""
    import openmdao.api as om
    from openaerostruct.structures.struct_groups import SpatialBeamAlone
    from openaerostruct.integration.aerostruct_groups import AerostructGeometry
    for grp in (SpatialBeamAlone, AerostructGeometry):
        for model in ("tube", "wingbox", "Tube", "box", ""):
            for thick in ("both", "skin_only", "spar_only"):
                s = surface(name="wing", nx=2, ny=3, model=model if model in ("tube", "wingbox") else "tube")
                s["fem_model_type"] = model
                if model == "wingbox":
                    if thick == "skin_only":
                        s.pop("spar_thickness_cp")
                    elif thick == "spar_only":
                        s.pop("skin_thickness_cp")
                elif thick != "both":
                    continue

                def build():
                    p = om.Problem(reports=False)
                    p.model.add_subsystem("g", grp(surface=s), promotes=["*"])
                    p.setup()
                got = _raises(build)
                want = "NameError" if (model not in ("tube", "wingbox") or (model == "wingbox" and thick != "both")) else None
                env.holds("C20", "%s: invalid fem_model_type / single wingbox thickness -> NameError [model=%r, thickness keys=%s]" % (grp.__name__, model, thick),
                          got == want, "raised %s, expected %s" % (got, want))


@job("c20.sections", ("C20",))
def sections(env):
    """multi-section lists of the wrong length -> ValueError"""
    from openaerostruct.geometry.geometry_group import build_sections
    base = dict(name="surface", is_multi_section=True, num_sections=2, sec_name=["a", "b"], symmetry=True, S_ref_type="wetted",
                taper=[1.0, 1.0], span=[1.0, 1.0], sweep=[0.0, 0.0], chord_cp=[np.ones(1), np.ones(1)], twist_cp=[np.zeros(2), np.zeros(2)],
                root_chord=1.0, meshes="gen-meshes", nx=2, ny=[3, 3], CL0=0.0, CD0=0.0, with_viscous=False, with_wave=False, groundplane=False)
    env.holds("C20", "build_sections accepts consistent lists", _raises(lambda: build_sections(copy.deepcopy(base))) is None)
    for key in ("ny", "taper", "span", "sweep", "sec_name"):
        for mut in ("short", "long"):
            d = copy.deepcopy(base)
            d[key] = d[key][:1] if mut == "short" else list(d[key]) + [d[key][0]]
            got = _raises(lambda: build_sections(d))
            env.holds("C20", "build_sections: list %r of the wrong length (%s) -> ValueError" % (key, mut), got == "ValueError", "raised %s" % got)
    d = copy.deepcopy(base)
    d["meshes"] = [np.zeros((2, 3, 3))]
    env.holds("C20", "build_sections: wrong number of user meshes -> ValueError", _raises(lambda: build_sections(d)) == "ValueError")


@job("c20.user_data", ("C20", "C14", "C04", "C07"), ranges=[(r".*", -1.5, 1.5)])
def user_data(env):
    """the mesh utilities return new arrays and leave the arrays they are given untouched; unify_mesh shifts and
    concatenates the sections as documented"""
    from openaerostruct.geometry.utils import getFullMesh
    from openaerostruct.geometry.geometry_unification import unify_mesh
    m = env.var("m", (2, 3, 3))
    keep = np.array(m, dtype=object if env.sym else float)
    full = env.call(getFullMesh, m)
    env.eq("C20", "getFullMesh leaves the mesh it is given unchanged", m, keep)
    env.eq("C20,C14,C04,C07", "getFullMesh == [mesh, mirror image without the shared section]", full,
           np.concatenate([keep, (keep * np.array([1, -1, 1]))[:, ::-1, :][:, 1:, :]], axis=1))
    for nsec in (1, 2, 3):
        secs = [env.var("sec%d" % k, (2, 2 + k % 2, 3)) for k in range(nsec)]
        keeps = [np.array(a, dtype=object if env.sym else float) for a in secs]
        dicts = [dict(mesh=a) for a in secs]
        uni = env.call(unify_mesh, dicts)
        for k in range(nsec):
            env.eq("C20", "unify_mesh leaves the section meshes it is given unchanged [%d sections, section %d]" % (nsec, k), dicts[k]["mesh"], keeps[k])
        # documented behaviour: outer sections are translated so that leading edges coincide at each boundary
        acc = None
        for k in range(nsec - 1):
            if acc is None:
                acc = keeps[0][:, :-1, :]
            else:
                acc = np.concatenate([acc - keeps[k - 1][0, -1, :] + keeps[k][0, 0, :], keeps[k][:, :-1, :]], axis=1)
        want = keeps[-1] if acc is None else np.concatenate([acc, keeps[-1]], axis=1)
        env.eq("C20,C14", "unify_mesh == sections concatenated with the shared column dropped, outer part shifted to the joining leading edge [%d sections]" % nsec, uni, want)
        uni2 = env.call(unify_mesh, dicts)
        env.eq("C20", "unify_mesh gives the same result when called again on the same dictionaries [%d sections]" % nsec, uni2, uni)


@job("c20.aeropoint_setup", ("C20",))
def aeropoint_setup(env):
    """setting up and running the public groups does not modify the arrays of the user's surface dictionaries"""
    import openmdao.api as om
    from .. import gsx
    for cfg in (dict(symmetry=True), dict(symmetry=False), dict(symmetry=True, groundplane=True)):
        s = surface(name="wing", nx=2, ny=3, **cfg)
        snap = {k: np.array(v, copy=True) for k, v in s.items() if isinstance(v, np.ndarray)}
        p = om.Problem(reports=False)
        gsx.aero_model([s])(p.model)
        p.setup()
        p.run_model()
        same = all(np.array_equal(s[k], v) for k, v in snap.items()) and set(k for k, v in s.items() if isinstance(v, np.ndarray)) == set(snap)
        env.holds("C20", "AeroPoint set-up and run leave the arrays of the surface dictionary unchanged %s" % cfg, same)
        env.holds("C20", "AeroPoint outputs are finite at the default point %s" % cfg,
                  all(np.all(np.isfinite(p.get_val(n))) for n in ("ap.CL", "ap.CD", "ap.CM")))


# ---------------------------------------------------------------------------------------------- frame: no shared state

_MUTATORS = {"append", "extend", "insert", "update", "add", "setdefault", "pop", "popitem", "clear", "remove", "discard",
             "sort", "reverse", "fill", "put", "resize", "itemset", "__setitem__"}


def _mutable_value(node):
    import ast
    if isinstance(node, (ast.Dict, ast.List, ast.Set, ast.ListComp, ast.DictComp, ast.SetComp)):
        return True
    if isinstance(node, ast.Call):
        f = node.func
        nm = f.id if isinstance(f, ast.Name) else (f.attr if isinstance(f, ast.Attribute) else "")
        return nm in ("dict", "list", "set", "defaultdict", "OrderedDict", "deque", "zeros", "ones", "empty", "full",
                      "array", "arange", "linspace", "zeros_like", "ones_like", "bytearray")
    return False


def _shared_state_findings(tree):
    """(kind, owner, name, line) for every container created once per class / per module and written through an instance
    or from inside a function: state that two independent Problems in one process would share"""
    import ast
    out = []
    mod_mut = {}
    for st in tree.body:
        if isinstance(st, (ast.Assign, ast.AnnAssign)) and st.value is not None and _mutable_value(st.value):
            for t in (st.targets if isinstance(st, ast.Assign) else [st.target]):
                if isinstance(t, ast.Name):
                    mod_mut[t.id] = st.lineno

    def writes(fn, base_test):
        """names X such that  <base>.X[...] = / <base>.X.mutator(...) / <base>.X op= ...  occurs in fn"""
        found = []
        for n in ast.walk(fn):
            tgts = []
            if isinstance(n, ast.Assign):
                tgts = n.targets
            elif isinstance(n, ast.AugAssign):
                tgts = [n.target]
            elif isinstance(n, ast.Delete):
                tgts = n.targets
            for t in tgts:
                for tt in (t.elts if isinstance(t, (ast.Tuple, ast.List)) else [t]):
                    b = tt
                    sub = False
                    while isinstance(b, ast.Subscript):
                        b = b.value
                        sub = True
                    nm = base_test(b)
                    if nm and (sub or isinstance(n, ast.AugAssign)):
                        found.append((nm, n.lineno))
            if isinstance(n, ast.Call) and isinstance(n.func, ast.Attribute) and n.func.attr in _MUTATORS:
                nm = base_test(n.func.value)
                if nm:
                    found.append((nm, n.lineno))
        return found

    for c in [n for n in ast.walk(tree) if isinstance(n, ast.ClassDef)]:
        cls_mut = {}
        for st in c.body:
            if isinstance(st, (ast.Assign, ast.AnnAssign)) and st.value is not None and _mutable_value(st.value):
                for t in (st.targets if isinstance(st, ast.Assign) else [st.target]):
                    if isinstance(t, ast.Name):
                        cls_mut[t.id] = st.lineno
        methods = [m for m in c.body if isinstance(m, (ast.FunctionDef, ast.AsyncFunctionDef))]
        rebound = set()
        for m in methods:
            for n in ast.walk(m):
                if isinstance(n, ast.Assign):
                    for t in n.targets:
                        if isinstance(t, ast.Attribute) and isinstance(t.value, ast.Name) and t.value.id == "self":
                            rebound.add(t.attr)

        def self_attr(b, cls_mut=cls_mut, cname=c.name):
            if isinstance(b, ast.Attribute) and isinstance(b.value, ast.Name) and b.value.id in ("self", "cls", cname) \
                    and b.attr in cls_mut:
                return b.attr
            if isinstance(b, ast.Attribute) and isinstance(b.value, ast.Call) and isinstance(b.value.func, ast.Name) \
                    and b.value.func.id == "type" and b.attr in cls_mut:
                return b.attr
            return None
        for m in methods:
            for nm, ln in writes(m, self_attr):
                if nm not in rebound:
                    out.append(("class attribute", c.name, nm, ln))
            # class attributes rebound on the class itself from a method
            for n in ast.walk(m):
                if isinstance(n, (ast.Assign, ast.AugAssign)):
                    for t in (n.targets if isinstance(n, ast.Assign) else [n.target]):
                        if isinstance(t, ast.Attribute) and isinstance(t.value, ast.Name) and t.value.id in ("cls", c.name):
                            out.append(("class attribute (rebound on the class)", c.name, t.attr, n.lineno))
    # module-level containers written from functions, and `global` rebinding
    for f in [n for n in ast.walk(tree) if isinstance(n, (ast.FunctionDef, ast.AsyncFunctionDef))]:
        local = {a.arg for a in f.args.args + f.args.kwonlyargs} | {n.id for n in ast.walk(f) if isinstance(n, ast.Name) and isinstance(n.ctx, ast.Store)}
        glob = set()
        for n in ast.walk(f):
            if isinstance(n, ast.Global):
                glob |= set(n.names)
        for g in glob:
            out.append(("module global (rebound)", f.name, g, f.lineno))

        def mod_name(b, local=local, glob=glob):
            if isinstance(b, ast.Name) and b.id in mod_mut and (b.id not in local or b.id in glob):
                return b.id
            return None
        for nm, ln in writes(f, mod_name):
            out.append(("module container", f.name, nm, ln))
    return out


ALL_PROPS = tuple("C%02d" % k for k in range(1, 21) if k != 12)


@job("c20.no_shared_state", ALL_PROPS)
def no_shared_state(env):
    """frame condition over every module of the package (unbounded in configurations): methods and functions write only
    to instance attributes, their arguments and locals - never to containers owned by a class or a module, which every
    Problem in the process and every surface of a model would share.  Decided on the syntax tree of the current sources.
    Part of every property's check: each contract is stated per component instance and assumes this frame."""
    import ast
    import os
    import openaerostruct
    root = os.path.dirname(openaerostruct.__file__)
    nfiles = 0
    for dp, dn, fns in sorted(os.walk(root)):
        if any(part in ("tests", "docs", "examples") for part in dp[len(root):].split(os.sep)):
            continue
        for fn in sorted(fns):
            if not fn.endswith(".py"):
                continue
            path = os.path.join(dp, fn)
            rel = os.path.relpath(path, os.path.dirname(root))
            tree = ast.parse(open(path).read(), path)
            finds = _shared_state_findings(tree)
            nfiles += 1
            env.functions.add(rel)
            env.holds(",".join(ALL_PROPS), "no class-level or module-level container is written from a method or function [%s]" % rel,
                      not finds, "; ".join("%s %s.%s written at line %d" % f for f in finds[:5]), static=True)
    env.holds(",".join(ALL_PROPS), "the frame scan saw the package's modules", nfiles > 40, "only %d files" % nfiles)
    env.assumptions.add("frame scan is syntactic: writes through aliases (x = self.table; x[k] = v) and through "
                        "setattr/vars()/__dict__ are not seen")


@job("c20.units_consistency", ALL_PROPS)
def units_consistency(env):
    """one name, one physical dimension: across the components of the structures-only group (tube, wingbox, all load options)
    and of the aerodynamic analysis point (incompressible, compressible, rotational) every variable name is declared either
    with units of one dimension everywhere or without units everywhere.  A variable that loses its unit in one component
    silently switches OpenMDAO's conversion off for whatever the user connects to it."""
    import warnings
    import openmdao.api as om
    from openmdao.utils.units import simplify_unit, unit_conversion
    from .. import gsx
    acc = {}

    def collect(p):
        m = p.model
        for io in ("input", "output"):
            for a, meta in m._var_allprocs_abs2meta[io].items():
                if a.startswith("_auto_ivc"):
                    continue
                comp, var = a.rsplit(".", 1)
                acc.setdefault(var, {}).setdefault(meta["units"], set()).add(comp.rsplit(".", 1)[-1])
    with warnings.catch_warnings():
        warnings.simplefilter("ignore")
        for model in ("tube", "wingbox"):
            s = surface(name="wing", nx=2, ny=3, model=model, struct_weight_relief=True, distributed_fuel_weight=(model == "wingbox"), n_point_masses=1)
            p = om.Problem(reports=False)
            p.model.add_subsystem("wing", cls("structures.struct_groups.SpatialBeamAlone")(surface=s))
            p.setup()
            collect(p)
        for comp in (False, True):
            s = surface(name="wing", nx=2, ny=3)
            t = surface(name="tail", nx=2, ny=3, symmetry=True, xshift=3.0)
            p = om.Problem(reports=False)
            gsx.aero_model([s, t], compressible=comp, rotational=True)(p.model)
            p.setup()
            collect(p)
        # the coupled aerostructural point with its geometry groups (load and displacement transfer, performance)
        from openaerostruct.integration.aerostruct_groups import AerostructGeometry, AerostructPoint
        s = surface(name="wing", nx=2, ny=3, model="tube", struct_weight_relief=True, n_point_masses=1)
        p = om.Problem(reports=False)
        p.model.add_subsystem("wing", AerostructGeometry(surface=s))
        p.model.add_subsystem("AS", AerostructPoint(surfaces=[s]))
        p.setup()
        collect(p)
        # ground effect (height above the ground) and the atmosphere group feeding a performance group
        g1 = surface(name="wing", nx=2, ny=3, symmetry=True, groundplane=True)
        p = om.Problem(reports=False)
        gsx.aero_model([g1])(p.model)
        p.setup()
        collect(p)
        import openaerostruct.common.atmos_group as AG
        from openaerostruct.functionals.total_performance import TotalPerformance
        p = om.Problem(reports=False)
        p.model.add_subsystem("atmos", AG.AtmosGroup())
        p.model.add_subsystem("tp", TotalPerformance(surfaces=[s], user_specified_Sref=False, internally_connect_fuelburn=True))
        try:
            p.setup()
        except Exception:
            pass                                    # (ambiguous promoted defaults do not matter for the declarations)
        collect(p)
    bad = []
    # the documented physical dimension of the quantities a user sets (user guide: flight conditions and weights)
    documented = {"height_agl": "m", "alpha": "deg", "beta": "deg", "v": "m/s", "rho": "kg/m**3", "re": "1/m", "cg": "m", "omega": "rad/s",
                  "altitude": "ft", "speed_of_sound": "m/s", "W0": "kg", "R": "m", "CT": "1/s", "empty_cg": "m", "load_factor": None, "Mach_number": None}
    for var, want in documented.items():
        for u in acc.get(var, {}):
            if (u is None) != (want is None):
                bad.append("%s: declared with units %s in %s, documented as %s" % (var, u, sorted(acc[var][u])[:2], want))
            elif u is not None:
                try:
                    unit_conversion(u, want)
                except Exception:
                    bad.append("%s: declared in %s (%s), documented as %s" % (var, u, sorted(acc[var][u])[:2], want))
    for var, d in sorted(acc.items()):
        if None in d and len(d) > 1:
            bad.append("%s: no units in %s, %s elsewhere" % (var, sorted(d[None])[:3], sorted(k for k in d if k)[:2]))
            continue
        us = [u for u in d if u]
        for u in us[1:]:
            try:
                unit_conversion(us[0], u)
            except Exception:
                bad.append("%s: %s vs %s" % (var, us[0], u))
    env.holds(",".join(ALL_PROPS), "every variable name carries units of one dimension wherever a component declares it", not bad, "; ".join(bad[:5]), static=False)
    env.holds("C20", "the units scan saw the models' variables", len(acc) > 100, "%d names" % len(acc))


@job("c20.group_key_warnings", ("C20",))
def group_key_warnings(env):
    """an unknown key in the dictionary the USER hands to a public geometry group (single-surface Geometry, AerostructGeometry,
    multi-section MultiSecGeometry) is named in a warning at set-up - for the user's own dictionary, not only for dictionaries
    the group derives from it"""
    import openmdao.api as om
    from openaerostruct.geometry.geometry_group import Geometry, MultiSecGeometry
    from openaerostruct.integration.aerostruct_groups import AerostructGeometry
    multi = dict(name="surface", is_multi_section=True, num_sections=2, sec_name=["a", "b"], symmetry=True, S_ref_type="wetted",
                 taper=[1.0, 1.0], span=[1.0, 1.0], sweep=[0.0, 0.0], chord_cp=[np.ones(1), np.ones(1)], twist_cp=[np.zeros(2), np.zeros(2)],
                 root_chord=1.0, meshes="gen-meshes", nx=2, ny=[3, 3], CL0=0.0, CD0=0.0, with_viscous=False, with_wave=False, groundplane=False)
    cases = [("Geometry", lambda d: Geometry(surface=d), lambda: surface(name="wing", nx=2, ny=3)),
             ("AerostructGeometry", lambda d: AerostructGeometry(surface=d), lambda: surface(name="wing", nx=2, ny=3, model="tube")),
             ("MultiSecGeometry", lambda d: MultiSecGeometry(surface=d), lambda: copy.deepcopy(multi))]
    for label, mk, base in cases:
        for extra in ({}, {"twsit_cp": np.zeros(2)}, {"sweeep": 1.0, "spam": 2}):
            d = base()
            d.update(extra)
            with warnings.catch_warnings(record=True) as w:
                warnings.simplefilter("always")
                p = om.Problem(reports=False)
                p.model.add_subsystem("g", mk(d))
                try:
                    p.setup()
                    err = None
                except Exception as e:
                    err = "%s: %s" % (type(e).__name__, str(e)[:80])
            msgs = [str(x.message) for x in w]
            named = [k for k in extra if any("`%s`" % k in m for m in msgs)]
            env.holds("C20", "%s: set-up names every unknown key of the user's dictionary in a warning %s" % (label, sorted(extra)),
                      err is None and len(named) == len(extra), "set-up %s; named %s" % (err or "ok", named))
