"""C07: mirror-image configurations give mirror-image results."""
import numpy as np
from ..runner import job
from .. import gsx, term as S, spshim
from ..surfaces import surface
from .c01_components import cls, T
from .c06 import RG
from .c04 import SM, S6, GT

SP = np.array([-1, 1, -1])       # pseudo-vectors (moments, rotation rates) under reflection about the x-z plane


def mirror_mesh(m):
    """reflect about y = 0 and reverse the spanwise node order (so that y still increases along the second axis)"""
    return (np.asarray(m) * SM)[:, ::-1, :]


def rev_panels(a, nx, ny):
    return np.asarray(a, dtype=object).reshape(nx - 1, ny - 1)[:, ::-1].reshape(-1)


@job("c07.aero_full", ("C07",), cfgs=[dict(nx=2, ny=3, rotational=True), dict(nx=2, ny=3, rotational=False, _tier=T), dict(nx=3, ny=3, rotational=True, _tier=T),
                                         dict(nx=4, ny=3, rotational=False)],    # three chordwise panels: ring/horseshoe bookkeeping beyond one interior row
     ranges=RG, cost=30)
def aero_full(env, nx, ny, rotational):
    """a full-span surface with arbitrary asymmetric geometry, sideslip and rotation rates vs its mirror image"""
    s = surface(name="wing", nx=nx, ny=ny, symmetry=False, with_viscous=False, with_wave=False)
    g = gsx.GroupSX(env, gsx.aero_model([s], rotational=rotational))
    if env.sym:
        env.use_helpers("eval_mtx")
    m = env.var("mesh", (nx, ny, 3))
    base = dict(alpha=env.var("alpha", (1,)), v=env.var("v", (1,)), rho=env.var("rho", (1,)), beta=env.var("beta", (1,)),
                Mach_number=env.var("Mach_number", (1,)), re=env.var("re", (1,)), cg=env.var("cg", (3,)),
                wing_t_over_c=env.var("toc", (ny - 1,)))
    if rotational:
        base["omega"] = env.var("omega", (3,))
    v1 = g.run(dict(base, wing_def_mesh=m))
    solves1 = list(g.solves)
    b2 = dict(base, wing_def_mesh=mirror_mesh(m), beta=-base["beta"], cg=base["cg"] * SM, wing_t_over_c=base["wing_t_over_c"][::-1])
    if rotational:
        b2["omega"] = base["omega"] * SP
    if env.sym:
        v2 = g.run(b2, hints={"solve_matrix": lambda rec: rev_panels(solves1[0]["x"], nx, ny)})
        r1 = solves1[0]
        A1 = r1["A"].T if r1["trans"] else r1["A"]
        res1 = spshim._mm(A1, np.asarray(r1["x"], dtype=object).reshape(-1)) - np.asarray(r1["b"], dtype=object).reshape(-1)
        # the mirrored normal has the opposite orientation convention on a reversed panel order: rows match up to sign
        lhs = g.solves[0]["residual_at_phi"]
        want = rev_panels(res1, nx, ny)
        env.eq("C07", "solve lemma: the spanwise-reversed circulations satisfy the tangency system of the mirror image (row by row, up to the sign of the normal)",
               lhs * lhs, want * want)
        env.assumptions.add("non-singular AIC matrix (uniqueness of the circulations)")
    else:
        v2 = g.run(b2)
    f1 = g.get(v1, "ap.aero_states.wing_sec_forces")
    f2 = g.get(v2, "ap.aero_states.wing_sec_forces")
    env.eq("C07", "sectional forces of the mirror image are the mirror image (reversed spanwise order)", f2, (f1 * SM)[:, ::-1, :])
    for q in ("CL", "CD"):
        env.eq("C07", "%s unchanged by reflection" % q, g.get(v2, "ap." + q), g.get(v1, "ap." + q))
    env.eq("C07", "CM reflects as a pseudo-vector", g.get(v2, "ap.CM"), g.get(v1, "ap.CM") * SP)


@job("c07.aero_left_right", ("C07",), cfgs=[dict(nx=2, ny=3), dict(nx=3, ny=3, _tier=T)], ranges=RG, cost=30)
def aero_left_right(env, nx, ny):
    """the same wing modelled by its left half and by its right half (symmetry on)"""
    sl = surface(name="wing", nx=nx, ny=ny, symmetry=True, side="left", with_viscous=False, with_wave=False)
    sr = surface(name="wing", nx=nx, ny=ny, symmetry=True, side="right", with_viscous=False, with_wave=False)
    gl = gsx.GroupSX(env, gsx.aero_model([sl]), key="L")
    gr = gsx.GroupSX(env, gsx.aero_model([sr]), key="R")
    if env.sym:
        env.use_helpers("eval_mtx")
    m = env.var("mesh", (nx, ny, 3))
    m[:, -1, 1] = 0 * m[:, -1, 1]
    base = dict(alpha=env.var("alpha", (1,)), v=env.var("v", (1,)), rho=env.var("rho", (1,)), beta=env.const(np.zeros(1)),
                Mach_number=env.var("Mach_number", (1,)), re=env.var("re", (1,)), cg=env.var("cg", (3,)) * np.array([1, 0, 1]))
    toc = env.var("toc", (ny - 1,))
    v1 = gl.run(dict(base, wing_def_mesh=m, wing_t_over_c=toc))
    solves1 = list(gl.solves)
    b2 = dict(base, wing_def_mesh=mirror_mesh(m), wing_t_over_c=toc[::-1])
    if env.sym:
        v2 = gr.run(b2, hints={"solve_matrix": lambda rec: rev_panels(solves1[0]["x"], nx, ny)})
        r1 = solves1[0]
        A1 = r1["A"].T if r1["trans"] else r1["A"]
        res1 = spshim._mm(A1, np.asarray(r1["x"], dtype=object).reshape(-1)) - np.asarray(r1["b"], dtype=object).reshape(-1)
        lhs = gr.solves[0]["residual_at_phi"]
        want = rev_panels(res1, nx, ny)
        env.eq("C07", "solve lemma: left-half circulations (reversed) satisfy the right-half model's tangency system", lhs * lhs, want * want)
    else:
        v2 = gr.run(b2)
    f1 = gl.get(v1, "ap.aero_states.wing_sec_forces")
    f2 = gr.get(v2, "ap.aero_states.wing_sec_forces")
    env.eq("C07", "left-half and right-half models: sectional forces are mirror images", f2, (f1 * SM)[:, ::-1, :])
    for q in ("CL", "CD", "CM"):
        env.eq("C07", "left-half and right-half models agree on %s" % q, gr.get(v2, "ap." + q), gl.get(v1, "ap." + q))


@job("c07.geometry_dvs_right", ("C07",), cfgs=[dict(nx=2, ny=3), dict(nx=3, ny=3, _tier=T)],
     ranges=RG + [(r"sweep|dihedral|twist", 2.0, 20.0), (r"taper", 0.3, 0.9), (r"chord", 0.6, 1.4), (r"span", 2.0, 6.0)], cost=10)
def geometry_dvs_right(env, nx, ny):
    """every mesh transformation applied to a right-half symmetric mesh gives the mirror image of its result on the
    left-half mesh of the same wing (per-node design variables in reversed order)"""
    from ..surfaces import mesh as mkmesh
    ml = env.var("in_mesh", (nx, ny, 3))
    ml[:, -1, 1] = 0 * ml[:, -1, 1]
    for i in range(1, nx):
        ml[i, :, 1] = ml[0, :, 1]
    mr = mirror_mesh(ml)

    def pair(klass, dv, node_dv=False, **o):
        if klass not in ("ShearX", "ShearY", "ShearZ", "ScaleX"):
            o["symmetry"] = True
        val = np.zeros(ny) if node_dv else 0.0
        h = env.comp(klass, lambda o=o: cls(GT + klass)(val=val, mesh_shape=(nx, ny, 3), **o))
        x = env.var(dv, (ny,) if node_dv else (1,))
        xr = x[::-1] if node_dv else x
        outl = h.compute({dv: x, "in_mesh": ml})["mesh"]
        outr = h.compute({dv: xr, "in_mesh": mr})["mesh"]
        env.eq("C07", "%s on a right-half mesh is the mirror image of the left-half result" % klass, outr, mirror_mesh(outl))

    pair("Sweep", "sweep")
    pair("Dihedral", "dihedral")
    pair("Stretch", "span", ref_axis_pos=0.25)
    pair("ScaleX", "chord", node_dv=True, ref_axis_pos=0.25)
    pair("ShearX", "xshear", node_dv=True)
    pair("ShearZ", "zshear", node_dv=True)
    pair("Rotate", "twist", node_dv=True, ref_axis_pos=0.25)
    cl = mkmesh(nx, ny, True, "left")
    cr = (cl * SM)[:, ::-1, :].copy()
    tl = env.comp("TaperL", lambda: cls(GT + "Taper")(val=1.0, mesh=cl.copy(), symmetry=True, ref_axis_pos=0.25))
    tr = env.comp("TaperR", lambda: cls(GT + "Taper")(val=1.0, mesh=cr.copy(), symmetry=True, ref_axis_pos=0.25))
    t = env.var("taper", (1,))
    env.eq("C07", "Taper on a right-half mesh is the mirror image of the left-half result",
           tr.compute(dict(taper=t))["mesh"], mirror_mesh(tl.compute(dict(taper=t))["mesh"]))


@job("c07.aero_left_right_multi", ("C07",), cfgs=[dict(sides=("left", "left"), flip=(False, True)), dict(sides=("left", "right"), flip=(True, True), _tier=T),
                                                   dict(sides=("right", "right"), flip=(True, False), _tier=T)], ranges=RG, cost=40)
def aero_left_right_multi(env, sides, flip):
    """two symmetric surfaces: the same aircraft with the modelled half of some of the surfaces exchanged"""
    other = {"left": "right", "right": "left"}
    specs = [("wing", 2, 3, sides[0], 0.0), ("tail", 2, 3, sides[1], 3.0)]
    sa = [surface(name=n, nx=nx, ny=ny, symmetry=True, side=sd, xshift=xs, with_viscous=False, with_wave=False) for n, nx, ny, sd, xs in specs]
    sb = [surface(name=n, nx=nx, ny=ny, symmetry=True, side=(other[sd] if fl else sd), xshift=xs, with_viscous=False, with_wave=False)
          for (n, nx, ny, sd, xs), fl in zip(specs, flip)]
    ga = gsx.GroupSX(env, gsx.aero_model(sa), key="A")
    gb = gsx.GroupSX(env, gsx.aero_model(sb), key="B")
    if env.sym:
        env.use_helpers("eval_mtx")
    base = dict(alpha=env.var("alpha", (1,)), v=env.var("v", (1,)), rho=env.var("rho", (1,)), beta=env.const(np.zeros(1)),
                Mach_number=env.var("Mach_number", (1,)), re=env.var("re", (1,)), cg=env.var("cg", (3,)) * np.array([1, 0, 1]))
    ia, ib = dict(base), dict(base)
    for (n, nx, ny, sd, xs) in specs:
        m = env.var(n + "_mesh", (nx, ny, 3))
        root = -1 if sd == "left" else 0
        m[:, root, 1] = 0 * m[:, root, 1]
        toc = env.var(n + "_toc", (ny - 1,))
        ia[n + "_def_mesh"], ia[n + "_t_over_c"] = m, toc
        fl = flip[[q[0] for q in specs].index(n)]
        ib[n + "_def_mesh"], ib[n + "_t_over_c"] = (mirror_mesh(m), toc[::-1]) if fl else (m, toc)
    va = ga.run(ia)
    sola = list(ga.solves)

    def rev_all(vec):
        out, k = [], 0
        for (n, nx, ny, sd, xs), fl in zip(specs, flip):
            npan = (nx - 1) * (ny - 1)
            part = np.asarray(vec, dtype=object).reshape(-1)[k:k + npan]
            out.append(rev_panels(part, nx, ny) if fl else part)
            k += npan
        return np.concatenate(out)
    if env.sym:
        vb = gb.run(ib, hints={"solve_matrix": lambda rec: rev_all(sola[0]["x"])})
        r1 = sola[0]
        A1 = r1["A"].T if r1["trans"] else r1["A"]
        res1 = spshim._mm(A1, np.asarray(r1["x"], dtype=object).reshape(-1)) - np.asarray(r1["b"], dtype=object).reshape(-1)
        lhs, want = gb.solves[0]["residual_at_phi"], rev_all(res1)
        env.eq("C07", "solve lemma (two surfaces, halves exchanged)", lhs * lhs, want * want)
    else:
        vb = gb.run(ib)
    for (n, nx, ny, sd, xs) in specs:
        f1 = ga.get(va, "ap.aero_states.%s_sec_forces" % n)
        f2 = gb.get(vb, "ap.aero_states.%s_sec_forces" % n)
        fl = flip[[q[0] for q in specs].index(n)]
        env.eq("C07", "exchanging the modelled half of a surface mirrors its sectional forces, the others are unchanged [%s]" % n, f2,
               (f1 * SM)[:, ::-1, :] if fl else f1)
    for q in ("CL", "CD", "CM"):
        env.eq("C07", "exchanging the modelled halves leaves %s unchanged" % q, gb.get(vb, "ap." + q), ga.get(va, "ap." + q))


def mirror_nodal3(a):
    return (np.asarray(a) * SM)[::-1]


def mirror_nodal6(a):
    return (np.asarray(a) * S6)[::-1]


RS = RG + [(r"^A|^I|^J|radius|thickness|Qz|A_enc|A_int|htop|hbottom|hfront|hrear", 0.5, 1.5), (r"loads", 1.0, 5.0), (r"load_factor", 0.8, 1.5),
           (r"disp", -0.3, 0.3), (r"nodes.*\]\[1\]$", -3.0, 3.0), (r"point_mass|engine|fuel|element_mass", 0.5, 2.0)]


@job("c07.struct_components", ("C07",), cfgs=[dict(ny=3)], ranges=RS, cost=20)
def struct_components(env, ny):
    """stress recovery and distributed / point loads of a full-span structure vs its mirror image (nodes reflected and in
    reversed order, displacements as vectors, rotations as pseudo-vectors, element data reversed)"""
    def surf(model, **kw):
        return surface(name="wing", nx=2, ny=ny, symmetry=False, model=model, **kw)
    # --- von Mises, tube
    st = surf("tube")
    h = env.comp("vmt", lambda: cls("structures.vonmises_tube.VonMisesTube")(surface=st))
    ins = h.inputs()
    o1 = h.compute(ins)["vonmises"]
    o2 = h.compute(dict(nodes=mirror_nodal3(ins["nodes"]), disp=mirror_nodal6(ins["disp"]), radius=ins["radius"][::-1]))["vonmises"]
    # the two stress points of a tube element are its two ends' combinations: reversed element order, same set per element
    env.eq("C07", "tube von Mises stresses of the mirror image: the same per element (elements in reversed order)", o2, o1[::-1])
    # --- von Mises, wingbox
    sw = surf("wingbox")
    h = env.comp("vmw", lambda: cls("structures.vonmises_wingbox.VonMisesWingbox")(surface=sw))
    ins = h.inputs()
    o1 = h.compute(ins)["vonmises"]
    i2 = {k: np.asarray(v)[::-1] for k, v in ins.items() if k not in ("nodes", "disp")}
    i2["nodes"] = mirror_nodal3(ins["nodes"])
    i2["disp"] = mirror_nodal6(ins["disp"])
    o2 = h.compute(i2)["vonmises"]
    env.eq("C07", "wingbox von Mises stresses of the mirror image: the same per element and stress point (elements in reversed order)",
           o2, o1[::-1])
    # --- structural weight loads
    h = env.comp("swl", lambda: cls("structures.wing_weight_loads.StructureWeightLoads")(surface=st))
    ins = h.inputs()
    l1 = h.compute(ins)["struct_weight_loads"]
    l2 = h.compute(dict(nodes=mirror_nodal3(ins["nodes"]), element_mass=ins["element_mass"][::-1], load_factor=ins["load_factor"]))["struct_weight_loads"]
    env.eq("C07", "structural-weight loads of the mirror image are the mirror image", l2, mirror_nodal6(l1))
    # --- point masses and thrust
    sp = surf("tube", n_point_masses=1)
    h = env.comp("pm", lambda: cls("structures.compute_point_mass_loads.ComputePointMassLoads")(surface=sp))
    ins = h.inputs()
    l1 = h.compute(ins)["loads_from_point_masses"]
    l2 = h.compute(dict(ins, nodes=mirror_nodal3(ins["nodes"]), point_mass_locations=ins["point_mass_locations"] * SM))["loads_from_point_masses"]
    env.eq("C07", "point-mass loads of the mirror image are the mirror image", l2, mirror_nodal6(l1))
    h = env.comp("th", lambda: cls("structures.compute_thrust_loads.ComputeThrustLoads")(surface=sp))
    ins = h.inputs()
    l1 = h.compute(ins)["loads_from_thrusts"]
    l2 = h.compute(dict(ins, nodes=mirror_nodal3(ins["nodes"]), point_mass_locations=ins["point_mass_locations"] * SM))["loads_from_thrusts"]
    env.eq("C07", "thrust loads of the mirror image are the mirror image", l2, mirror_nodal6(l1))
    # --- fuel loads
    sf = surf("wingbox")
    h = env.comp("fl", lambda: cls("structures.fuel_loads.FuelLoads")(surface=sf))
    ins = h.inputs()
    l1 = h.compute(ins)["fuel_weight_loads"]
    l2 = h.compute(dict(ins, nodes=mirror_nodal3(ins["nodes"]), fuel_vols=ins["fuel_vols"][::-1]))["fuel_weight_loads"]
    env.eq("C07", "fuel loads of the mirror image are the mirror image", l2, mirror_nodal6(l1))


@job("c07.struct_chain", ("C07",), cfgs=[dict(ny=3, relief=False), dict(ny=3, relief=True, _tier=T)], ranges=RS, cost=60)
def struct_chain(env, ny, relief):
    """the structure-alone chain (nodes, stiffness assembly, weight, loads, FEM, displacements, tube stresses) of a
    full-span wing with arbitrary asymmetric geometry, section properties and loads vs its mirror image"""
    nx = 2
    s = surface(name="wing", nx=nx, ny=ny, symmetry=False, struct_weight_relief=relief)
    g1 = gsx.GroupSX(env, gsx.struct_model(s), key="A")
    g2 = gsx.GroupSX(env, gsx.struct_model(s), key="B")
    env.indicator_branch = 0
    m = env.var("mesh", (nx, ny, 3))
    el = {n: env.var(n, (ny - 1,)) for n in ("A", "Iy", "Iz", "J", "radius", "thickness")}
    loads = env.var("loads", (ny, 6))
    extra = dict(load_factor=env.var("load_factor", (1,))) if relief else {}
    v1 = g1.run(dict(el, mesh=m, loads=loads, **extra))
    sol1 = list(g1.solves)
    in2 = dict({n: v[::-1] for n, v in el.items()}, mesh=mirror_mesh(m), loads=mirror_nodal6(loads), **extra)

    def mir_aug(x):
        x = np.asarray(x, dtype=object).reshape(-1)
        return np.concatenate([mirror_nodal6(x[:6 * ny].reshape(ny, 6)).reshape(-1), x[6 * ny:] * S6])
    if env.sym:
        v2 = g2.run(in2, hints={"fem": lambda rec: mir_aug(sol1[0]["x"])})
        r1 = sol1[0]
        A1 = r1["A"].T if r1["trans"] else r1["A"]
        res1 = spshim._mm(A1, np.asarray(r1["x"], dtype=object).reshape(-1)) - np.asarray(r1["b"], dtype=object).reshape(-1)
        env.eq("C07", "FEM solve lemma: the mirrored displacements (vectors / pseudo-vectors, reversed node order) satisfy the "
                      "equilibrium equations of the mirror-image structure", g2.solves[0]["residual_at_phi"], mir_aug(res1))
        env.assumptions.add("non-singular clamped stiffness matrix (uniqueness of the displacements)")
    else:
        v2 = g2.run(in2)
    env.eq("C07", "displacements and rotations of the mirror image are the mirror image", g2.get(v2, "disp"), mirror_nodal6(g1.get(v1, "disp")))
    env.eq("C07", "tube von Mises stresses of the mirror image are the same per element (reversed order)", g2.get(v2, "vonmises"), g1.get(v1, "vonmises")[::-1])
    env.eq("C07", "structural mass is unchanged by reflection", g2.get(v2, "structural_mass"), g1.get(v1, "structural_mass"))
    env.eq("C07", "structural cg is reflected", g2.get(v2, "cg_location"), g1.get(v1, "cg_location") * SM)


@job("c07.monotonic", ("C07", "C04"), cfgs=[dict(nyh=2), dict(nyh=3), dict(nyh=4, _tier=T)])
def monotonic(env, nyh):
    """the monotonicity constraint of a spanwise distribution (positive where the quantity grows from root towards a tip): for a
    full-span surface the constraint vector of the mirrored distribution is the mirror image, and the left half of it is the
    constraint vector of the symmetric half model"""
    ny = 2 * nyh - 1
    sf = surface(name="wing", nx=2, ny=ny, symmetry=False)
    sh = surface(name="wing", nx=2, ny=nyh, symmetry=True, side="left")
    fac = lambda s: (lambda: cls("geometry.monotonic_constraint.MonotonicConstraint")(surface=s, var_name="chord"))
    hf = env.comp("full", fac(sf))
    hf2 = env.comp("full.mirrored", fac(sf))
    hh = env.comp("half", fac(sh))
    x = env.var("chord", (ny,))
    cf = hf.compute(dict(chord=x))["monotonic_chord"]
    cm = hf2.compute(dict(chord=x[::-1]))["monotonic_chord"]
    env.eq("C07", "monotonicity constraint of the mirrored distribution is the mirror image", cm, cf[::-1])
    ch = hh.compute(dict(chord=x[:nyh]))["monotonic_chord"]
    env.eq("C07,C04", "monotonicity constraint of the half model == left half of the full-span constraint", ch, cf[:nyh - 1])
