"""Helper contracts proved with the full real bodies on generic symbolic vectors.  Component-level proofs that use
env.use_helpers(...) rely on exactly these clauses."""
import numpy as np
from ..runner import job


@job("helper.structures_utils", ("C01", "C10", "C15"), ranges=[(r"^v", -1.5, 1.5)])
def structures_utils(env):
    import openaerostruct.structures.utils as U
    xp = env.xp
    for n in (2, 3):
        v = env.var("v%d" % n, (n,))
        nv = env.call(U.norm, v)
        env.eq("C01", "norm(v)^2 == v.v  [n=%d]" % n, nv * nv, xp.sum(v * v))
        env.eq("C01", "norm_d(v) == d norm / d v  [n=%d]" % n, env.call(U.norm_d, v), env.deriv(U.norm, v)[0])
        u = env.call(U.unit, v)
        env.eq("C01", "unit(v) * norm(v) == v  [n=%d]" % n, u * nv, v)
        env.eq("C01", "unit_d(v) == d unit / d v  [n=%d]" % n, env.call(U.unit_d, v), env.deriv(U.unit, v))
    a = env.var("a", (3,))
    b = env.var("b", (3,))
    dcda, dcdb = env.call(U.cross_d, a, b)
    env.eq("C01", "cross_d(a,b)[0] == d(a x b)/da", dcda, env.deriv(lambda t: xp.cross(t, b), a))
    env.eq("C01", "cross_d(a,b)[1] == d(a x b)/db", dcdb, env.deriv(lambda t: xp.cross(a, t), b))
