"""Helper contracts proved with the full real bodies on generic symbolic vectors.  Component-level proofs that use
env.use_helpers(...) rely on exactly these clauses."""
import numpy as np
from ..runner import job


@job("helper.structures_utils", ("C01", "C10", "C15"), ranges=[(r"^v", -1.5, 1.5)])
def structures_utils(env):
    import openaerostruct.structures.utils as U
    xp = env.xp
    for n in (2, 3):
        v = env.var("v%d" % n, (n,))
        nv = env.call(U.norm, v)
        env.eq("C01", "norm(v)^2 == v.v  [n=%d]" % n, nv * nv, xp.sum(v * v))
        env.eq("C01", "norm_d(v) == d norm / d v  [n=%d]" % n, env.call(U.norm_d, v), env.deriv(U.norm, v)[0])
        u = env.call(U.unit, v)
        env.eq("C01", "unit(v) * norm(v) == v  [n=%d]" % n, u * nv, v)
        env.eq("C01", "unit_d(v) == d unit / d v  [n=%d]" % n, env.call(U.unit_d, v), env.deriv(U.unit, v))
    a = env.var("a", (3,))
    b = env.var("b", (3,))
    dcda, dcdb = env.call(U.cross_d, a, b)
    env.eq("C01", "cross_d(a,b)[0] == d(a x b)/da", dcda, env.deriv(lambda t: xp.cross(t, b), a))
    env.eq("C01", "cross_d(a,b)[1] == d(a x b)/db", dcdb, env.deriv(lambda t: xp.cross(a, t), b))


@job("helper.eval_mtx", ("C01", "C05"), ranges=[(r"^(r1|r2|r|u)", -1.5, 1.5)], cost=5)
def eval_mtx_helpers(env):
    """the vortex kernel helpers against their derivative helpers (chain rule with a direction matrix D)"""
    import openaerostruct.aerodynamics.eval_mtx as E
    xp = env.xp
    r1 = env.var("r1", (3,))
    r2 = env.var("r2", (3,))
    D = env.var("D", (3, 3))
    J1 = env.deriv(lambda t: E._compute_finite_vortex(t, r2), r1)
    J2 = env.deriv(lambda t: E._compute_finite_vortex(r1, t), r2)
    env.eq("C01", "_compute_finite_vortex_deriv1(r1,r2,D) == (d f/d r1) D", env.call(E._compute_finite_vortex_deriv1, r1, r2, D), xp.dot(J1, D) if not env.sym else _mm(J1, D))
    env.eq("C01", "_compute_finite_vortex_deriv2(r1,r2,D) == (d f/d r2) D", env.call(E._compute_finite_vortex_deriv2, r1, r2, D), xp.dot(J2, D) if not env.sym else _mm(J2, D))
    env.eq("C01", "antisymmetry lemma: _compute_finite_vortex(r1, r2) == -_compute_finite_vortex(r2, r1)",
           env.call(E._compute_finite_vortex, r1, r2), -env.call(E._compute_finite_vortex, r2, r1))
    Sm = np.array([1, -1, 1])
    env.eq("C01", "reflection lemma: _compute_finite_vortex(S r1, S r2) == -S _compute_finite_vortex(r1, r2), S = diag(1,-1,1)",
           env.call(E._compute_finite_vortex, Sm * r1, Sm * r2), -Sm * env.call(E._compute_finite_vortex, r1, r2))
    u = env.var("u", (3,))
    r = env.var("r", (3,))
    env.eq("C01", "reflection lemma: _compute_semi_infinite_vortex(S u, S r) == -S _compute_semi_infinite_vortex(u, r)",
           env.call(E._compute_semi_infinite_vortex, Sm * u, Sm * r), -Sm * env.call(E._compute_semi_infinite_vortex, u, r))
    Jr = env.deriv(lambda t: E._compute_semi_infinite_vortex(u, t), r)
    env.eq("C01", "_compute_semi_infinite_vortex_deriv(u,r,D) == (d f/d r) D", env.call(E._compute_semi_infinite_vortex_deriv, u, r, D), xp.dot(Jr, D) if not env.sym else _mm(Jr, D))


def _mm(A, B):
    from ..spshim import _mm as mm
    from .. import term as S
    return mm(S.lift(np.asarray(A, dtype=object)), S.lift(np.asarray(B, dtype=object)))
