"""Helper contracts proved with the full real bodies on generic symbolic vectors.  Component-level proofs that use
env.use_helpers(...) rely on exactly these clauses."""
import numpy as np
from ..runner import job


@job("helper.structures_utils", ("C01", "C10", "C15"), ranges=[(r"^v", -1.5, 1.5), (r"^q", -0.6, 0.6)])
def structures_utils(env):
    import openaerostruct.structures.utils as U
    xp = env.xp
    for n in (2, 3):
        v = env.var("v%d" % n, (n,))
        nv = env.call(U.norm, v)
        env.eq("C01", "norm(v)^2 == v.v  [n=%d]" % n, nv * nv, xp.sum(v * v))
        env.eq("C01", "norm_d(v) == d norm / d v  [n=%d]" % n, env.call(U.norm_d, v), env.deriv(U.norm, v)[0])
        u = env.call(U.unit, v)
        env.eq("C01", "unit(v) * norm(v) == v  [n=%d]" % n, u * nv, v)
        env.eq("C01", "unit_d(v) == d unit / d v  [n=%d]" % n, env.call(U.unit_d, v), env.deriv(U.unit, v))
    # rotation lemma used as canonicalisation by c10.rotation: for every rotation R (Cayley matrix of a Gibbs vector q)
    # norm(R v) == norm(v) and unit(R v) == R unit(v)
    q = env.var("q", (3,))
    qq = (q * q).sum()
    Kx = np.array([[0 * q[0], -q[2], q[1]], [q[2], 0 * q[0], -q[0]], [-q[1], q[0], 0 * q[0]]], dtype=object if env.sym else float)
    qqT = np.array([[q[i] * q[j] for j in range(3)] for i in range(3)], dtype=object if env.sym else float)
    Rm = ((1 - qq) * np.eye(3) + 2 * qqT + 2 * Kx) / (1 + qq)
    v = env.var("v3", (3,))
    Rv = np.array([sum(Rm[i, j] * v[j] for j in range(3)) for i in range(3)], dtype=object if env.sym else float)
    n0, n1 = env.call(U.norm, v), env.call(U.norm, Rv)
    env.eq("C10", "rotation lemma: norm(R v)^2 == norm(v)^2 (both non-negative by construction)", n1 * n1, n0 * n0)
    u0 = env.call(U.unit, v)
    Ru0 = np.array([sum(Rm[i, j] * u0[j] for j in range(3)) for i in range(3)], dtype=object if env.sym else float)
    # unit(R v) == R unit(v) follows from the three clauses: unit(w) norm(w) == w at w = R v, norm(R v) == norm(v) (equal
    # squares of principal roots), and R (unit(v) norm(v)) == R v
    env.eq("C10", "rotation lemma: unit(R v) * norm(R v) == R v", env.call(U.unit, Rv) * n1, Rv)
    env.eq("C10", "rotation lemma: R unit(v) * norm(v) == R v", Ru0 * n0, Rv)
    a = env.var("a", (3,))
    b = env.var("b", (3,))
    dcda, dcdb = env.call(U.cross_d, a, b)
    env.eq("C01", "cross_d(a,b)[0] == d(a x b)/da", dcda, env.deriv(lambda t: xp.cross(t, b), a))
    env.eq("C01", "cross_d(a,b)[1] == d(a x b)/db", dcdb, env.deriv(lambda t: xp.cross(a, t), b))


@job("helper.eval_mtx", ("C01", "C05"), ranges=[(r"^(r1|r2|r|u)", -1.5, 1.5)], cost=5)
def eval_mtx_helpers(env):
    """the vortex kernel helpers against their derivative helpers (chain rule with a direction matrix D)"""
    import openaerostruct.aerodynamics.eval_mtx as E
    xp = env.xp
    r1 = env.var("r1", (3,))
    r2 = env.var("r2", (3,))
    D = env.var("D", (3, 3))
    J1 = env.deriv(lambda t: E._compute_finite_vortex(t, r2), r1)
    J2 = env.deriv(lambda t: E._compute_finite_vortex(r1, t), r2)
    env.eq("C01", "_compute_finite_vortex_deriv1(r1,r2,D) == (d f/d r1) D", env.call(E._compute_finite_vortex_deriv1, r1, r2, D), xp.dot(J1, D) if not env.sym else _mm(J1, D))
    env.eq("C01", "_compute_finite_vortex_deriv2(r1,r2,D) == (d f/d r2) D", env.call(E._compute_finite_vortex_deriv2, r1, r2, D), xp.dot(J2, D) if not env.sym else _mm(J2, D))
    env.eq("C01", "antisymmetry lemma: _compute_finite_vortex(r1, r2) == -_compute_finite_vortex(r2, r1)",
           env.call(E._compute_finite_vortex, r1, r2), -env.call(E._compute_finite_vortex, r2, r1))
    Sm = np.array([1, -1, 1])
    env.eq("C01", "reflection lemma: _compute_finite_vortex(S r1, S r2) == -S _compute_finite_vortex(r1, r2), S = diag(1,-1,1)",
           env.call(E._compute_finite_vortex, Sm * r1, Sm * r2), -Sm * env.call(E._compute_finite_vortex, r1, r2))
    u = env.var("u", (3,))
    r = env.var("r", (3,))
    env.eq("C01", "reflection lemma: _compute_semi_infinite_vortex(S u, S r) == -S _compute_semi_infinite_vortex(u, r)",
           env.call(E._compute_semi_infinite_vortex, Sm * u, Sm * r), -Sm * env.call(E._compute_semi_infinite_vortex, u, r))
    Jr = env.deriv(lambda t: E._compute_semi_infinite_vortex(u, t), r)
    env.eq("C01", "_compute_semi_infinite_vortex_deriv(u,r,D) == (d f/d r) D", env.call(E._compute_semi_infinite_vortex_deriv, u, r, D), xp.dot(Jr, D) if not env.sym else _mm(Jr, D))


def _mm(A, B):
    from ..spshim import _mm as mm
    from .. import term as S
    return mm(S.lift(np.asarray(A, dtype=object)), S.lift(np.asarray(B, dtype=object)))
