"""C19: composition of surfaces and wrappers does not change the physics.
Not decided here: vanishing influence of a far-away surface (a limit)."""
import numpy as np
from ..runner import job
from .. import gsx, term as S, spshim
from ..surfaces import surface
from .c01_components import cls, T
from .c06 import RG, base_inputs


def _res(rec):
    A = rec["A"].T if rec["trans"] else rec["A"]
    return spshim._mm(A, np.asarray(rec["x"], dtype=object).reshape(-1)) - np.asarray(rec["b"], dtype=object).reshape(-1)


def _perm_blocks(vec, sizes, order):
    """vector given in the block order 0..n-1 -> block order `order`"""
    vec = np.asarray(vec, dtype=object).reshape(-1)
    off = np.concatenate([[0], np.cumsum(sizes)])
    return np.concatenate([vec[off[k]:off[k + 1]] for k in order])


@job("c19.permutation", ("C19",), cfgs=[dict(order=(1, 0)), dict(order=(2, 0, 1)), dict(order=(1, 2, 0), _tier=T)], ranges=RG, cost=40)
def permutation(env, order):
    """listing the surfaces in a different order changes neither the panel forces nor CL, CD, L, D, S_ref (CM is normalised
    by the first surface's chord, documented)"""
    n = len(order)
    specs = [("wing", 2, 3, True, "left", 0.0), ("tail", 3, 2, False, "left", 3.0), ("fin", 2, 2, True, "right", 5.0)][:n]
    surfs = [surface(name=nm, nx=nx, ny=(ny if sym else ny + (1 - ny % 2)), symmetry=sym, side=sd, xshift=xs, with_viscous=False, with_wave=False)
             for nm, nx, ny, sym, sd, xs in specs]
    g1 = gsx.GroupSX(env, gsx.aero_model(surfs), key="A")
    g2 = gsx.GroupSX(env, gsx.aero_model([surfs[k] for k in order]), key="B")
    if env.sym:
        env.use_helpers("eval_mtx")
    given = base_inputs(env, g1, surfs)
    v1 = g1.run(given)
    sol1 = list(g1.solves)
    sizes = [(s["mesh"].shape[0] - 1) * (s["mesh"].shape[1] - 1) for s in surfs]
    if env.sym:
        v2 = g2.run(given, hints={"solve_matrix": lambda rec: _perm_blocks(sol1[0]["x"], sizes, order)})
        env.eq("C19", "solve lemma: the permuted circulations satisfy the permuted tangency system", g2.solves[0]["residual_at_phi"],
               _perm_blocks(_res(sol1[0]), sizes, order))
        env.assumptions.add("non-singular AIC matrix (uniqueness of the circulations)")
    else:
        v2 = g2.run(given)
    for s in surfs:
        nm = s["name"]
        env.eq("C19", "sectional forces do not depend on the order of the surface list [%s]" % nm,
               g2.get(v2, "ap.aero_states.%s_sec_forces" % nm), g1.get(v1, "ap.aero_states.%s_sec_forces" % nm))
    for q in ("CL", "CD"):
        env.eq("C19", "aircraft %s does not depend on the order of the surface list" % q, g2.get(v2, "ap." + q), g1.get(v1, "ap." + q))
    env.eq("C19", "summed moment about the reference point does not depend on the order of the surface list",
           g2.get(v2, "ap.total_perf.moment.M"), g1.get(v1, "ap.total_perf.moment.M"))


@job("c19.split", ("C19",), cfgs=[dict(nx=2, cut=1, ny=3), dict(nx=2, cut=2, ny=4, _tier=T), dict(nx=3, cut=1, ny=3, _tier=T)], ranges=RG, cost=40)
def split(env, nx, ny, cut):
    """a full-span surface vs the same surface split into two abutting surfaces at spanwise node `cut`"""
    whole = surface(name="wing", nx=nx, ny=ny, symmetry=False, with_viscous=False, with_wave=False)
    partA = surface(name="wa", nx=nx, ny=cut + 1, symmetry=False, with_viscous=False, with_wave=False)
    partB = surface(name="wb", nx=nx, ny=ny - cut, symmetry=False, with_viscous=False, with_wave=False)
    partA["mesh"] = whole["mesh"][:, :cut + 1].copy()
    partB["mesh"] = whole["mesh"][:, cut:].copy()
    g1 = gsx.GroupSX(env, gsx.aero_model([whole]), key="W")
    g2 = gsx.GroupSX(env, gsx.aero_model([partA, partB]), key="S")
    if env.sym:
        env.use_helpers("eval_mtx")
    m = env.var("mesh", (nx, ny, 3))
    common = dict(alpha=env.var("alpha", (1,)), v=env.var("v", (1,)), rho=env.var("rho", (1,)), beta=env.var("beta", (1,)),
                  Mach_number=env.var("Mach_number", (1,)), re=env.var("re", (1,)), cg=env.var("cg", (3,)))
    toc = env.var("toc", (ny - 1,))
    v1 = g1.run(dict(common, wing_def_mesh=m, wing_t_over_c=toc))
    sol1 = list(g1.solves)

    def split_panels(vec):
        gm = np.asarray(vec, dtype=object).reshape(nx - 1, ny - 1)
        return np.concatenate([gm[:, :cut].reshape(-1), gm[:, cut:].reshape(-1)])
    i2 = dict(common, wa_def_mesh=m[:, :cut + 1], wb_def_mesh=m[:, cut:], wa_t_over_c=toc[:cut], wb_t_over_c=toc[cut:])
    if env.sym:
        v2 = g2.run(i2, hints={"solve_matrix": lambda rec: split_panels(sol1[0]["x"])})
        env.eq("C19", "solve lemma: the circulations of the whole surface satisfy the tangency system of the two abutting surfaces "
                      "(the two coincident edge segments cancel)", g2.solves[0]["residual_at_phi"], split_panels(_res(sol1[0])))
        env.assumptions.add("non-singular AIC matrix (uniqueness of the circulations)")
    else:
        v2 = g2.run(i2)
    f = g1.get(v1, "ap.aero_states.wing_sec_forces")
    env.eq("C19", "sectional forces of the left part == those of the whole surface", g2.get(v2, "ap.aero_states.wa_sec_forces"), f[:, :cut])
    env.eq("C19", "sectional forces of the right part == those of the whole surface", g2.get(v2, "ap.aero_states.wb_sec_forces"), f[:, cut:])
    env.eq("C19", "reference areas add up", g2.get(v2, "ap.wa.S_ref") + g2.get(v2, "ap.wb.S_ref"), g1.get(v1, "ap.wing.S_ref"))
    env.eq("C19", "total lift is unchanged by the split", g2.get(v2, "ap.total_perf.L"), g1.get(v1, "ap.total_perf.L"))
    env.eq("C19", "total drag is unchanged by the split", g2.get(v2, "ap.total_perf.D"), g1.get(v1, "ap.total_perf.D"))


@job("c19.mux_demux", ("C19", "C02"), cfgs=[dict(nsurf=1), dict(nsurf=2), dict(nsurf=3)], cost=5)
def mux_demux(env, nsurf):
    """the MPhys mesh demultiplexer and force multiplexer are exact inverse permutations with adjoint-consistent
    matrix-free products"""
    from mphys.core import MPhysVariables
    from .c01_components import two_surfaces
    surfs = two_surfaces(dict(nx=2, ny=2, symmetry=True, side="right", nsurf=nsurf))
    XN = MPhysVariables.Aerodynamics.Surface.COORDINATES
    FN = MPhysVariables.Aerodynamics.Surface.LOADS
    dmx = env.comp("dmx", lambda: cls("mphys.demux_surface_mesh.DemuxSurfaceMesh")(surfaces=surfs))
    mux = env.comp("mux", lambda: cls("mphys.mux_surface_forces.MuxSurfaceForces")(surfaces=surfs))
    x = env.var("x", dmx.shape[XN])
    meshes = dmx.compute({XN: x})
    # mux applied to the demultiplexed arrays gives the flat array back (inverse permutations, nothing lost or duplicated)
    back = mux.compute({s["name"] + "_mesh_point_forces": meshes[s["name"] + "_def_mesh"] for s in surfs})[FN]
    env.eq("C19", "mux(demux(x)) == x", back, x)
    tot = sum(int(np.prod(s["mesh"].shape)) for s in surfs)
    env.holds("C19", "flat array length == total number of mesh coordinates", dmx.shape[XN] == (tot,), "%s vs %d" % (dmx.shape[XN], tot))
    # matrix-free products: fwd == (d compute) v, and <fwd(v), w> == <v, rev(w)>
    for h, inn, outn in ((dmx, [XN], [s["name"] + "_def_mesh" for s in surfs]), (mux, [s["name"] + "_mesh_point_forces" for s in surfs], [FN])):
        v = {n: env.var("v_" + n.replace(".", "_").replace(":", "_"), h.shape[n]) for n in inn}
        w = {n: env.var("w_" + n.replace(".", "_").replace(":", "_"), h.shape[n]) for n in outn}
        xin = {n: env.var("p_" + n.replace(".", "_").replace(":", "_"), h.shape[n]) for n in inn}
        fwd = h.jacvec(xin, v, {n: 0 * w[n] for n in outn}, "fwd")[1]
        rev = h.jacvec(xin, {n: 0 * v[n] for n in inn}, w, "rev")[0]
        # compute is linear: d compute . v == compute(v)
        lin = h.compute(v)
        for n in outn:
            env.eq("C02,C19", "%s: forward product == (d compute) v [%s]" % (h.csx.clsname, n), fwd[n], lin[n])
        lhs = sum((np.asarray(fwd[n]) * np.asarray(w[n])).sum() for n in outn)
        rhs = sum((np.asarray(v[n]) * np.asarray(rev[n])).sum() for n in inn)
        env.eq("C02,C19", "%s: adjoint consistency <fwd(v), w> == <v, rev(w)>" % h.csx.clsname, lhs, rhs)


@job("c19.builder_state", ("C19", "C03"))
def builder_state(env):
    """frame condition on the MPhys builder: constructing a builder with user options does not change the class-level
    defaults nor what a later builder (without options) hands to its groups -- exhaustive over the declared option keys,
    each given a non-default value in a first builder"""
    import copy
    from openaerostruct.mphys.aero_builder import AeroBuilder
    surfs = [surface(name="wing", nx=2, ny=3)]
    defaults = copy.deepcopy(AeroBuilder.def_options)
    env.holds("C19,C03", "AeroBuilder declares its documented defaults", isinstance(defaults, dict) and "compressible" in defaults, str(defaults))
    nondefault = {"compressible": (not defaults.get("compressible", True)), "user_specified_Sref": (not defaults.get("user_specified_Sref", False)),
                  "write_solution": (not defaults.get("write_solution", True)), "output_dir": "somewhere_else"}
    for key, val in nondefault.items():
        if key not in defaults:
            continue
        b1 = AeroBuilder(surfs, options={key: val})
        env.holds("C19,C03", "a builder keeps the option it was given [%s]" % key, b1.options[key] == val)
        b2 = AeroBuilder(surfs)
        env.holds("C19,C03", "class-level defaults unchanged after a builder was given %s" % key, AeroBuilder.def_options == defaults,
                  "now %s" % AeroBuilder.def_options)
        env.holds("C19,C03", "a later builder without options uses the defaults [after %s]" % key, b2.options == defaults, "has %s" % b2.options)
        grp = b2.get_coupling_group_subsystem()
        env.holds("C19,C03", "the coupling group of a default builder is compressible as documented [after %s]" % key,
                  grp.options["compressible"] == defaults["compressible"])
        AeroBuilder.def_options.clear()
        AeroBuilder.def_options.update(copy.deepcopy(defaults))


@job("c19.index_maps_unbounded", ("C19", "C11"))
def index_maps_unbounded(env):
    """the three index helpers of mphys/utils.py for ANY number of surfaces of ANY sizes: verification conditions
    generated from the Python AST of the real functions (loop invariant: the running offset is the prefix sum of the
    block sizes) and discharged by z3: blocks start at the prefix sums, are pairwise disjoint, lie inside and cover
    [0, total) -- the mux/demux index maps are bijections onto a contiguous range"""
    from .. import astvc
    import itertools
    import openaerostruct.mphys.utils as U

    def concrete(fn, kind):
        ok = True
        for sizes in itertools.product([(2, 2), (3, 2), (2, 5)], repeat=3):
            for n in (1, 2, 3):
                surfs = [dict(name="s%d" % k, mesh=np.zeros((a, b, 3))) for k, (a, b) in enumerate(sizes[:n])]
                r = fn(surfs)
                if kind == "count":
                    ok &= r == sum(a * b for a, b in sizes[:n])
                else:
                    allidx = np.concatenate([r["s%d" % k].reshape(-1) for k in range(n)])
                    ok &= sorted(allidx.tolist()) == list(range(len(allidx)))
                    ok &= all(r["s%d" % k].shape[:2] == sizes[k] for k in range(n))
                    ok &= all(np.all(np.diff(r["s%d" % k].reshape(-1)) == 1) for k in range(n))
        return bool(ok)

    for fn, kind in ((U.get_number_of_nodes, "count"), (U.get_src_indices, "blocks"), (U.get_node_indices, "blocks")):
        env.functions.add("%s.%s" % (fn.__module__, fn.__name__))
        try:
            vcs = list(astvc.verify_index_function(fn, kind))
        except S.OutsideFragment as e:
            # the function was rewritten into a shape the VC generator does not cover (it supports the accumulate-in-a-loop
            # form): no unbounded verdict; the same statements on a concrete family of surface lists stand in, labelled bounded
            vcs = None
            env.note("c19.index_maps_unbounded: %s is outside the VC generator's subset (%s); bounded stand-in used" % (fn.__name__, e))
            env.assumptions.add("index helpers of mphys/utils.py: bounded check only (1-3 surfaces of 3 sizes); the AST VC generator does not cover their current form")
        if vcs is None:
            if env.sym:
                env.holds("C19,C11", "%s [bounded stand-in: 1-3 surfaces of sizes 2x2, 3x2, 2x5]: blocks are contiguous, disjoint and cover [0, total)" % fn.__name__,
                          concrete(fn, kind))
            else:
                env.numeric["%s [bounded stand-in: 1-3 surfaces of sizes 2x2, 3x2, 2x5]: blocks are contiguous, disjoint and cover [0, total)" % fn.__name__] = (
                    np.array([0.0 if concrete(fn, kind) else 1.0]), np.array([1.0]), np.array([0.0]), np.array([0.0]))
            continue
        if env.sym:
            for name, verdict, model in vcs:
                o = env.holds("C19,C11", "%s (unbounded, AST VC, z3): %s" % (fn.__name__, name), verdict == "proved", "z3: %s %s" % (verdict, model))
                if verdict == "unknown":
                    o.refuted = []
                    o.undecided.append(dict(entry=None, reason="z3 returned unknown"))
        else:
            # native counterpart: the same statements checked on a concrete family of surface lists
            bad = 0.0 if concrete(fn, kind) else 1.0
            for name, verdict, model in vcs:
                env.numeric["%s (unbounded, AST VC, z3): %s" % (fn.__name__, name)] = (np.array([bad]), np.array([1.0]), np.array([0.0]), np.array([0.0]))


def _wiring(p, top):
    """{(class, role, input): source descriptor} of every leaf-component input of a set-up model; a source is
    ('comp', class, role, output) or ('ext', promoted name of the independent variable)"""
    import openmdao.api as om
    m = p.model
    conn = m._conn_global_abs_in2out
    comps = {}
    for c in m.system_iter(recurse=True, typ=om.core.component.Component if hasattr(om, "core") else object):
        comps[c.pathname] = c

    systems = {x.pathname: x for x in m.system_iter(recurse=True, include_self=True)}

    def ident(path):
        """(class, surface the component or its nearest enclosing group was built for, local name)"""
        role = ""
        q = path
        while q:
            try:
                if "surface" in systems[q].options:
                    role = systems[q].options["surface"]["name"]
                    break
            except Exception:
                pass
            q = q.rsplit(".", 1)[0] if "." in q else ""
        return (type(comps[path]).__name__, role, path.rsplit(".", 1)[-1])
    ids = {}
    for path in comps:
        if path.startswith("_auto_ivc") or isinstance(comps[path], om.IndepVarComp):
            continue
        ids.setdefault(ident(path), []).append(path)
    dup = {k: v for k, v in ids.items() if len(v) > 1}
    table = {}
    units = {}
    meta_in = m._var_allprocs_abs2meta["input"]
    for tgt, src in conn.items():
        tpath, tvar = tgt.rsplit(".", 1)
        if tpath not in comps or isinstance(comps[tpath], om.IndepVarComp):
            continue
        spath, svar = src.rsplit(".", 1)
        key = ident(tpath) + (tvar,)
        if spath.startswith("_auto_ivc") or isinstance(comps.get(spath), om.IndepVarComp):
            # the independent variable: named by the promoted name of the input at the top level
            table[key] = ("ext", m._resolver.abs2prom(tgt, "input") if spath.startswith("_auto_ivc") else svar)
        else:
            table[key] = ("comp",) + ident(spath) + (svar,)
        units[key] = meta_in[tgt]["units"]
    return table, units, dup


@job("c19.mphys_wiring", ("C19", "C17", "C06", "C11"), cfgs=[dict(nsurf=1, compressible=True), dict(nsurf=2, compressible=False), dict(nsurf=3, compressible=True)])
def mphys_wiring(env, nsurf, compressible):
    """modular equivalence of the MPhys wrapper groups and the native analysis point: both are built from the same
    component classes (each under its own contract); in the real connection tables every component input is fed by the
    same component output (same class, same surface, same variable) in both models, and the independent variables are
    shared in the same way - hence the same forces and coefficients for the same meshes and flow"""
    import openmdao.api as om
    from openaerostruct.aerodynamics.aero_groups import AeroPoint
    from openaerostruct.mphys.aero_solver_group import AeroSolverGroup
    from openaerostruct.mphys.aero_funcs_group import AeroFuncsGroup
    from .c01_components import two_surfaces
    surfs = two_surfaces(dict(nx=3, ny=2, symmetry=True, side="right", nsurf=nsurf))
    for s in surfs:
        s["with_viscous"] = True
        s["with_wave"] = True

    from .. import gsx
    from mphys.core import MPhysVariables
    pn = om.Problem(reports=False)
    gsx.aero_model(surfs, compressible=compressible)(pn.model)
    pn.setup()
    pn.final_setup()

    pm = om.Problem(reports=False)
    FC = MPhysVariables.Aerodynamics.FlowConditions
    ivc = om.IndepVarComp()
    ivc.add_output("v", val=1.0, units="m/s")
    ivc.add_output("rho", val=1.0, units="kg/m**3")
    ivc.add_output("cg", val=np.zeros(3), units="m")
    ivc.add_output(FC.ANGLE_OF_ATTACK, val=1.0, units="deg")
    ivc.add_output(FC.YAW_ANGLE, val=0.0, units="deg")
    ivc.add_output(FC.MACH_NUMBER, val=0.5)
    ivc.add_output(FC.REYNOLDS_NUMBER, val=1.0e6, units="1/m")
    for s in surfs:
        ivc.add_output(s["name"] + "_def_mesh", val=s["mesh"], units="m")
    pm.model.add_subsystem("flight", ivc, promotes=["*"])
    pm.model.add_subsystem("coupling", AeroSolverGroup(surfaces=surfs, compressible=compressible), promotes=["*"])
    pm.model.add_subsystem("funcs", AeroFuncsGroup(surfaces=surfs, write_solution=False, output_dir="."), promotes=["*"])
    pm.setup()
    pm.final_setup()

    tn, un, dn = _wiring(pn, "ap")
    tm, um, dm = _wiring(pm, "")
    env.holds("C19", "component identities (class, surface) are unique in both models", not dn and not dm, "%s %s" % (dn, dm))
    cn = {k[:3] for k in tn}
    cm = {k[:3] for k in tm}
    env.holds("C19", "the MPhys groups consist of the same components as the native analysis point", cn == cm,
              "only native: %s; only MPhys: %s" % (sorted(cn - cm), sorted(cm - cn)))
    ext = {}
    for key in sorted(tn):
        a, b = tn[key], tm.get(key)
        nm = "%s[%s]:%s.%s" % key
        if b is None:
            env.holds("C19,C17,C06,C11", "MPhys wiring: input %s is connected" % nm, False, "fed by %s natively, unconnected in the MPhys groups" % (a,))
            continue
        if a[0] == "comp" or b[0] == "comp":
            env.holds("C19,C17,C06,C11", "MPhys wiring: input %s has the native source" % nm, a == b, "native %s, MPhys %s" % (a, b))
        else:
            ext.setdefault(a[1], set()).add(b[1])
        env.holds("C19", "MPhys wiring: input %s has the native units" % nm, un[key] == um.get(key), "%s vs %s" % (un[key], um.get(key)))
    for a, bs in sorted(ext.items()):
        env.holds("C19", "independent variable %s of the native model is one variable of the MPhys groups" % a, len(bs) == 1, str(sorted(bs)))
    inv = {}
    for a, bs in ext.items():
        for b in bs:
            inv.setdefault(b, set()).add(a)
    for b, as_ in sorted(inv.items()):
        env.holds("C19", "independent variable %s of the MPhys groups is one variable of the native model" % b, len(as_) == 1, str(sorted(as_)))
    env.holds("C19", "the wiring comparison saw the component inputs", len(tn) > 40, "%d inputs" % len(tn))
    env.assumptions.add("MPhys groups vs native: equivalence by identical wiring of identical component classes (each class under its own contracts)")


@job("c19.multisection_wiring", ("C19", "C18", "C14"), cfgs=[dict(nsec=2), dict(nsec=3), dict(nsec=4, _tier=T)])
def multisection_wiring(env, nsec):
    """the multi-section geometry group feeds the unification (and joining) component section by section: slot k of the
    unified mesh / thickness-to-chord distribution / edge distances reads section k's own geometry group - so that the
    unified surface (whose drag estimates read the unified t/c) is the sections placed side by side.  Real connection table
    of the real group; the components themselves are under deriv.GeomMultiUnification / deriv.GeomMultiJoin."""
    import openmdao.api as om
    from openaerostruct.geometry.geometry_group import MultiSecGeometry
    names = ["sec%d" % k for k in range(nsec)]
    surf = dict(name="surface", is_multi_section=True, num_sections=nsec, sec_name=names, symmetry=True, S_ref_type="wetted",
                taper=[1.0 - 0.1 * k for k in range(nsec)], span=[2.0 + 0.5 * k for k in range(nsec)], sweep=[0.0] * nsec,
                root_chord=1.0, meshes="gen-meshes", nx=2, ny=[3] * nsec,
                twist_cp=[np.zeros(2) for _ in range(nsec)], t_over_c_cp=[np.array([0.08 + 0.02 * k]) for k in range(nsec)],
                CL0=0.0, CD0=0.015, k_lam=0.05, c_max_t=0.303, with_viscous=True, with_wave=False)
    p = om.Problem(reports=False)
    p.model.add_subsystem("g", MultiSecGeometry(surface=surf, joining_comp=True, dim_constr=[np.ones(3)] * (nsec - 1) if nsec > 1 else []), promotes=["*"])
    p.setup()
    p.final_setup()
    conn = p.model._conn_global_abs_in2out
    uni = "g.surface_unification"
    join = "g.surface_joining"
    for k, n in enumerate(names):
        for tgt, src in (("%s.%s_def_mesh" % (uni, n), "g.%s.mesh" % n), ("%s.%s_t_over_c" % (uni, n), "g.%s.t_over_c" % n),
                         ("%s.%s_join_mesh" % (join, n), "g.%s.mesh" % n)):
            got = conn.get(tgt)
            # the source is an output of section n's own geometry group (whatever its internal name)
            ok = got is not None and got.startswith("g.%s." % n) and got.rsplit(".", 1)[-1] == src.rsplit(".", 1)[-1]
            env.holds("C19,C18,C14", "multi-section wiring: %s <- section %d (%s)" % (tgt.split(".", 1)[1], k, src.split(".", 1)[1]), ok, "connected to %s" % got)
    secs = p.model.g.surface_unification.options["sections"]
    env.holds("C19,C14", "the unification component is built for the sections in the listed order", [s["name"] for s in secs] == names, str([s["name"] for s in secs]))


def _aero_keys_read():
    """surface-dictionary keys read by the aerodynamic components and functionals (syntax trees of the current sources)"""
    import ast
    import os
    import openaerostruct
    root = os.path.dirname(openaerostruct.__file__)
    keys = set()
    for sub in ("aerodynamics", "functionals"):
        for fn in sorted(os.listdir(os.path.join(root, sub))):
            if not fn.endswith(".py") or fn in ("aero_groups.py",):
                continue
            tree = ast.parse(open(os.path.join(root, sub, fn)).read())
            for n in ast.walk(tree):
                if isinstance(n, ast.Subscript) and isinstance(n.slice, ast.Constant) and isinstance(n.slice.value, str):
                    b = n.value
                    if (isinstance(b, ast.Name) and b.id in ("surface", "surf", "surf_dict")) or \
                            (isinstance(b, ast.Attribute) and b.attr == "surface"):
                        keys.add(n.slice.value)
                if isinstance(n, ast.Call) and isinstance(n.func, ast.Attribute) and n.func.attr == "get" and n.args \
                        and isinstance(n.args[0], ast.Constant) and isinstance(n.args[0].value, str):
                    b = n.func.value
                    if (isinstance(b, ast.Name) and b.id in ("surface", "surf", "surf_dict")) or \
                            (isinstance(b, ast.Attribute) and b.attr == "surface"):
                        keys.add(n.args[0].value)
    return keys


@job("c19.multisection_keys", ("C19", "C08", "C18"))
def multisection_keys(env):
    """a multi-section surface handed to the analysis point is replaced by one surface dictionary with the unified mesh: that
    dictionary carries every key the aerodynamic components read (found in their syntax trees) with the user's value - ground
    plane, drag options, offsets and coefficients included - so the unified surface is analysed under the user's options"""
    import openmdao.api as om
    from openaerostruct.aerodynamics.aero_groups import AeroPoint
    from openaerostruct.geometry.geometry_mesh_gen import generate_mesh as gen_multi
    nsec = 2
    user = dict(name="wing", is_multi_section=True, num_sections=nsec, sec_name=["s0", "s1"], symmetry=True, S_ref_type="projected",
                ref_axis_pos=0.4, taper=[0.8, 0.9], span=[2.0, 2.5], sweep=[0.0, 0.0], root_chord=1.0, meshes="gen-meshes", nx=2, ny=[3, 3],
                CL0=0.07, CD0=0.011, with_viscous=True, with_wave=True, groundplane=True, k_lam=0.1, c_max_t=0.33,
                t_over_c_cp=[np.array([0.1]), np.array([0.14])])
    mesh, _ = gen_multi(user)
    user["mesh"] = mesh
    tail = surface(name="tail", nx=2, ny=3, symmetry=True, side="left", groundplane=True, xshift=4.0)
    read = _aero_keys_read()
    env.holds("C19", "the scan of the aerodynamic sources found the dictionary keys they read", {"groundplane", "CL0", "with_viscous", "mesh"} <= read, str(sorted(read)))
    surfs = [dict(user), tail]
    p = om.Problem(reports=False)
    p.model.add_subsystem("ap", AeroPoint(surfaces=surfs))
    p.setup()
    built = p.model.ap.options["surfaces"][0]
    for k in sorted(read & set(user)):
        same = k in built and (np.array_equal(np.asarray(built[k], dtype=object), np.asarray(user[k], dtype=object)) if not isinstance(user[k], list)
                               else all(np.array_equal(a, b) for a, b in zip(built[k], user[k])))
        env.holds("C19,C08,C18", "multi-section surface: key '%s' read by the aerodynamic components reaches them with the user's value" % k,
                  same, "user %r, analysis point %r" % (user.get(k), built.get(k, "<absent>")))


@job("c19.point_wiring", ("C19", "C05", "C06", "C09", "C17", "C18", "C03"),
     cfgs=[dict(nsurf=1, compressible=False, rotational=False), dict(nsurf=2, compressible=True, rotational=True), dict(nsurf=1, compressible=True, rotational=False),
           dict(nsurf=2, compressible=False, rotational=True), dict(nsurf=3, compressible=False, rotational=True, _tier=T)])
def point_wiring(env, nsurf, compressible, rotational):
    """one quantity, one source inside the aerodynamic analysis point: every component that takes a flight condition (speed,
    density, angles, Mach and Reynolds number, rotation rates, reference point) reads it from the same source, and no input
    inside the point keeps its declared default while a component of the point computes a variable of that name"""
    import openmdao.api as om
    import warnings
    from .. import gsx
    from .c01_components import two_surfaces
    from .c16 import dangling_inputs
    surfs = two_surfaces(dict(nx=2, ny=2, symmetry=True, side="left", nsurf=nsurf, tail_sym=True))
    for s in surfs:
        s["with_viscous"] = True
        s["with_wave"] = True
    p = om.Problem(reports=False)
    gsx.aero_model(surfs, compressible=compressible, rotational=rotational)(p.model)
    with warnings.catch_warnings():
        warnings.simplefilter("ignore")
        p.setup()
        p.final_setup()
    conn = p.model._conn_global_abs_in2out
    by = {}
    for tgt, src in conn.items():
        if tgt.startswith("ap."):
            by.setdefault(tgt.rsplit(".", 1)[-1], {}).setdefault(src, []).append(tgt)
    shared = ["v", "rho", "re", "Mach_number", "cg"] + (["omega"] if rotational else [])
    for nm in shared:
        srcs = by.get(nm, {})
        env.holds("C19,C06,C17,C18", "analysis point: every component reads %s from one source" % nm, len(srcs) == 1,
                  "; ".join("%s <- %s" % (sorted(t)[0], s_) for s_, t in srcs.items()) or "no component reads it")
    # angles: the compressible solver works in the wind frame (its inner components get alpha = beta = 0 from an internal
    # constant); everything else reads the user's angles
    for nm in ("alpha", "beta"):
        srcs = {s_: t for s_, t in by.get(nm, {}).items()}
        ext = [s_ for s_ in srcs if s_.startswith("flight.")]
        internal = [s_ for s_ in srcs if not s_.startswith("flight.")]
        env.holds("C19,C06,C09", "analysis point: the user's %s has one source" % nm, len(ext) == 1, str(sorted(srcs)))
        env.holds("C19,C09", "analysis point: an internal source of %s exists only in the compressible solver (wind frame)" % nm,
                  (not internal) or compressible, str(internal))
    d = dangling_inputs(p, "ap.", allowed=(), names=[s["name"] for s in surfs])
    env.holds("C19,C05,C06,C18", "analysis point: no input is left at its default while the point computes a variable of that name",
              not d, "; ".join(d[:4]))
    from .c16 import foreign_surface_components
    fs = foreign_surface_components(p, [s["name"] for s in surfs])
    env.holds("C19,C17,C18", "analysis point: the groups of each surface are built from that surface's own dictionary", not fs, "; ".join(fs[:4]))
    from .c16 import stale_reads
    st = stale_reads(p, "")
    env.holds("C19,C05,C06,C09,C03", "analysis point: every input is computed before it is read (no value of the previous run)", not st, "; ".join(st[:4]))
