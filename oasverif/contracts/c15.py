"""C15: stress recovery and failure aggregation (specs from the statement)."""
import numpy as np
from ..runner import job
from .. import term as S
from ..term import RF
from .c01_components import cls, product, surf_of, T, POS, NODES

NYS = [dict(nx=2, ny=2), dict(nx=2, ny=3), dict(nx=2, ny=4, _tier=T)]
SYMS = [dict(symmetry=True, side="left"), dict(symmetry=False, _tier=T)]
R = tuple(POS) + tuple(NODES) + ((r"disp|^t\[|^r\[", -0.5, 0.5), (r"^c$", 0.5, 2.0))


def s0(x):
    return np.asarray(x).reshape(-1)[0]


def nonneg_by_construction(v):
    """term is c * (product of principal roots / even powers) with c >= 0"""
    if not isinstance(v, RF):
        return float(v) >= 0
    if not v.p:
        return True
    if len(v.p) != 1:
        return False
    (m, c), = v.p.items()
    if c < 0:
        return False
    for a, e in m:
        if S.A.kind[a] != 'rad' and e % 2:
            return False
    return True


def rigid(env, nodes):
    """displacement field of a rigid-body motion: translation t and (first-order) rotation vector r"""
    xp = env.xp
    t = env.var("t", (3,))
    r = env.var("r", (3,))
    ny = nodes.shape[0]
    u = t.reshape(1, 3) + xp.cross(xp.tile(r.reshape(1, 3), (ny, 1)), nodes)
    return xp.concatenate([u, xp.tile(r.reshape(1, 3), (ny, 1))], axis=1)


def _vm(env, cfg, model):
    s = surf_of(dict(cfg, model=model))
    path = "structures.vonmises_tube.VonMisesTube" if model == "tube" else "structures.vonmises_wingbox.VonMisesWingbox"
    return s, env.comp("vm", lambda: cls(path)(surface=s))


@job("c15.VonMises", ("C15",), cfgs=product(NYS, SYMS, [dict(model="tube"), dict(model="wingbox")]), ranges=R, cost=6)
def von_mises(env, model, **cfg):
    xp = env.xp
    s, h = _vm(env, cfg, model)
    ins = h.inputs()
    vm = h.compute(ins)["vonmises"]
    # the stresses are a function of the current displacements alone: on a live component last evaluated at another point
    # nothing of the earlier result remains, whichever branch the recovery takes (undeformed elements included)
    hv = env.comp("vm.live", h.factory)
    insP = hv.inputs(tag="P.")

    def revisit():
        st = hv.out_store()
        hv.compute(insP, outs=st)
        return hv.compute(ins, outs=st)
    for path, o in env.explore(revisit):
        tag = (" @path(%s)" % ";".join("%s=%s" % (repr(c)[:40], "T" if b else "F") for c, b in path)) if path else ""
        env.eq("C15", "von Mises stresses after an earlier evaluation at another point equal those of a fresh evaluation" + tag, o["vonmises"], vm)
    if env.sym:
        ok = all(nonneg_by_construction(v) for v in np.asarray(vm, dtype=object).reshape(-1))
        env.holds("C15", "von Mises stresses are non-negative by construction (non-negative multiples of principal roots)", ok)
    else:
        env.holds("C15", "von Mises stresses are non-negative by construction (non-negative multiples of principal roots)",
                  bool(np.all(np.asarray(vm) >= 0)))
    # rigid-body motion
    i2 = dict(ins)
    i2["disp"] = rigid(env, ins["nodes"])
    env.eq("C15", "von Mises stresses vanish for rigid-body motion (translation + first-order rotation)", h.compute(i2)["vonmises"], 0 * vm)
    # positive homogeneity of degree one in the displacement field (scale factor c**2 > 0)
    c = env.var("c", ())
    i3 = dict(ins)
    i3["disp"] = (c * c) * ins["disp"]
    env.eq("C15", "von Mises stresses scale linearly with the displacement field: vm(k disp) == k vm(disp), k = c^2 > 0",
           h.compute(i3)["vonmises"], (c * c) * vm)


def _straight(env, ny):
    """straight spar along +y with element lengths l_j^2 > 0; returns nodes and lengths"""
    xp = env.xp
    l = env.var("l", (ny - 1,))
    y0 = env.var("y0", ())
    ys = [y0]
    for j in range(ny - 1):
        ys.append(ys[-1] + l[j] * l[j])
    zero = 0 * y0
    nodes = xp.stack([xp.stack([zero, y, zero]) for y in ys])
    return nodes, l * l


@job("c15.ClosedForms", ("C15",), cfgs=product([dict(nx=2, ny=2), dict(nx=2, ny=3)], [dict(symmetry=True, side="left")],
                                                [dict(model="tube"), dict(model="wingbox")]), ranges=R + ((r"^l\[", 0.7, 1.3), (r"^d", 0.1, 0.5)), cost=4)
def closed_forms(env, model, **cfg):
    """straight spar along y: local axes are x_loc = +y, y_loc = unit(y x e_x) = -z, z_loc = unit(x_loc x y_loc) = -x"""
    xp = env.xp
    s, h = _vm(env, cfg, model)
    ny = h.shape["nodes"][0]
    nodes, L = _straight(env, ny)
    base = h.inputs(nodes=nodes)
    E, G = s["E"], s["G"]
    d = env.var("d", (ny,))            # nodal amplitudes
    zero = 0 * d

    def field(ux=None, rx=None, rz=None):
        cols = [zero, ux if ux is not None else zero, zero, rz_glob(rz), rx if rx is not None else zero, zero]
        return xp.stack(cols, axis=1)

    def rz_glob(rz):
        return zero if rz is None else rz

    # pure axial extension: displacement along the element axis (+y)
    i = dict(base)
    i["disp"] = field(ux=d)
    vm = h.compute(i)["vonmises"]
    ax = E * (d[1:] - d[:-1]) / L
    if env.sym:
        want = np.empty(vm.shape, dtype=object)
        for e in range(ny - 1):
            a = abs(ax[e])
            for k in range(vm.shape[1]):
                want[e, k] = a
        if model == "wingbox":
            want[:, 0] = want[:, 0] / s["strength_factor_for_upper_skin"]
            want[:, 3] = want[:, 3] / s["strength_factor_for_upper_skin"]
    else:
        want = np.abs(ax).reshape(-1, 1) * np.ones(vm.shape)
        if model == "wingbox":
            want[:, 0] /= s["strength_factor_for_upper_skin"]
            want[:, 3] /= s["strength_factor_for_upper_skin"]
    env.eq("C15", "pure axial extension: von Mises == E |du| / L", vm, want)
    # pure torsion: rotation about the element axis (+y)
    i = dict(base)
    i["disp"] = field(rx=d)
    vm = h.compute(i)["vonmises"]
    dth = (d[1:] - d[:-1]) / L
    if model == "tube":
        tau = G * base["radius"] * dth
    else:
        tau = G * base["J"] * dth / (2 * base["spar_thickness"] * base["A_enc"])      # T / (2 t A_enc), T = G J dtheta/L
    if env.sym:
        w = np.empty(vm.shape, dtype=object)
        for e in range(ny - 1):
            for k in range(vm.shape[1]):
                w[e, k] = xp.sqrt(3 * tau[e] * tau[e])
        if model == "wingbox":
            w[:, 0] = w[:, 0] / s["strength_factor_for_upper_skin"]
            w[:, 3] = w[:, 3] / s["strength_factor_for_upper_skin"]
    else:
        w = np.sqrt(3) * np.abs(tau).reshape(-1, 1) * np.ones(vm.shape)
        if model == "wingbox":
            w[:, 0] /= s["strength_factor_for_upper_skin"]
            w[:, 3] /= s["strength_factor_for_upper_skin"]
    env.eq("C15", "pure torsion: von Mises == sqrt(3) * shear stress (G r dtheta/L for the tube, T/(2 t A_enc) for the wingbox)", vm, w)
    if model == "tube":
        # pure bending: rotation about global x (= -z_loc): outer-fibre stress E r dtheta / L
        i = dict(base)
        i["disp"] = xp.stack([zero, zero, zero, d, zero, zero], axis=1)
        vm = h.compute(i)["vonmises"]
        sig = E * base["radius"] * (d[1:] - d[:-1]) / L
        if env.sym:
            w = np.empty(vm.shape, dtype=object)
            for e in range(ny - 1):
                w[e, 0] = w[e, 1] = abs(sig[e])
        else:
            w = np.abs(sig).reshape(-1, 1) * np.ones(vm.shape)
        env.eq("C15", "pure bending (tube): von Mises == M c / I == E r |dtheta| / L", vm, w)
        return
    # wingbox, bending: Euler-Bernoulli fields on the straight spar (local axes y_loc = -z, z_loc = -x; right-handed rotations,
    # u_y' = r_z, u_z' = -r_y as in the element stiffness).  Constant curvature kap about one local axis: the outer-fibre
    # stresses are E kap h of the element's own section heights, the shear term vanishes
    kap = env.var("kap", ())
    sj = nodes[:, 1] - nodes[0, 1]                  # arc length from the first node
    tssf = s["strength_factor_for_upper_skin"]

    def absvec(v):
        if env.sym:
            out = np.empty(len(v), dtype=object)
            for e in range(len(v)):
                out[e] = abs(v[e])
            return out
        return np.abs(v)

    def cols(*c):
        return xp.stack(list(c), axis=1)
    i = dict(base)
    i["disp"] = cols(zero, zero, -kap * sj * sj / 2, -kap * sj, zero, zero)       # curvature about z_loc (vertical bending)
    vm = h.compute(i)["vonmises"]
    ek = E * kap * (0 * L + 1)
    A_ = absvec
    env.eq("C15", "pure vertical bending (wingbox): top / bottom skin stress == E |curvature| h_top / h_bottom (M h / I), spars unstressed",
           vm, cols(A_(ek * base["htop"]) / tssf, A_(ek * base["hbottom"]), 0 * ek, 0 * ek))
    i = dict(base)
    i["disp"] = cols(kap * sj * sj / 2, zero, zero, zero, zero, -kap * sj)        # curvature about y_loc (in-plane bending)
    vm = h.compute(i)["vonmises"]
    env.eq("C15", "pure in-plane bending (wingbox): rear / front spar stress == E |curvature| h_rear / h_front in the four combinations",
           vm, cols(A_(ek * base["hrear"]) / tssf, A_(ek * base["hfront"]), A_(ek * base["hfront"]), A_(ek * base["hrear"]) / tssf))
    # transverse shear: cubic deflection u_y = a s^3 (end-loaded cantilever): V Q / (I t) == E u_sss Q / (2 t) on the two spar
    # combinations (no torsion, no in-plane bending, no axial strain there)
    i = dict(base)
    i["disp"] = cols(zero, zero, -kap * sj ** 3, -3 * kap * sj * sj, zero, zero)
    vm = h.compute(i)["vonmises"]
    tau = absvec(E * 6 * kap * base["Qz"] / (2 * base["spar_thickness"]))
    if env.sym:
        rt3 = np.empty(len(tau), dtype=object)
        for e in range(len(tau)):
            rt3[e] = xp.sqrt(3 * tau[e] * tau[e])
    else:
        rt3 = np.sqrt(3) * tau
    env.eq("C15", "transverse shear (wingbox, cubic deflection): spar combinations == sqrt(3) E |third derivative| Q / (2 t)", vm[:, 2:], cols(rt3, rt3 / tssf))
    # torsion and transverse shear together: the two shear flows add in one spar web and subtract in the other.  Stated
    # through the symmetric functions of the two web stresses, so that which web is called front does not enter:
    # s_a^2 + s_b^2 == 6 (tau^2 + q^2),  s_a^2 s_b^2 == 9 (tau^2 - q^2)^2
    th = env.var("dtheta", ())
    i = dict(base)
    i["disp"] = cols(zero, zero, -kap * sj ** 3, -3 * kap * sj * sj, th * sj, zero)     # twist about the spar axis (+y)
    vm = h.compute(i)["vonmises"]
    tq = G * base["J"] * th / (2 * base["spar_thickness"] * base["A_enc"])
    q = E * 6 * kap * base["Qz"] / (2 * base["spar_thickness"])
    a2, b2 = vm[:, 2] * vm[:, 2], (vm[:, 3] * tssf) * (vm[:, 3] * tssf)
    env.eq("C15", "torsion + transverse shear (wingbox): sum of the squared web stresses == 6 (tau^2 + q^2)", a2 + b2, 6 * (tq * tq + q * q))
    env.eq("C15", "torsion + transverse shear (wingbox): product of the squared web stresses == 9 (tau^2 - q^2)^2 (flows add in one web, subtract in the other)",
           a2 * b2, 9 * (tq * tq - q * q) * (tq * tq - q * q))


@job("c15.SectionTube_Failure", ("C15",), cfgs=product([dict(nx=2, ny=3)], [dict(symmetry=True, side="left")], [dict(model="tube"), dict(model="wingbox")]),
     ranges=R + ((r"vonmises", 5e7, 3e8),))
def section_and_failure(env, model, **cfg):
    s = surf_of(dict(cfg, model=model))
    fe = env.comp("fe", lambda: cls("structures.failure_exact.FailureExact")(surface=s))
    ins = fe.inputs()
    env.eq("C15", "exact failure == stress / allowable - 1", fe.compute(ins)["failure"], ins["vonmises"] / s["yield"] - 1)
    if model == "tube":
        sp = env.comp("sp", lambda: cls("structures.section_properties_tube.SectionPropertiesTube")(surface=s))
        i = sp.inputs()
        o = sp.compute(i)
        r2 = i["radius"]
        r1 = i["radius"] - i["thickness"]
        pi = env.pi
        env.eq("C15", "tube area == pi (ro^2 - ri^2)", o["A"], pi * (r2 ** 2 - r1 ** 2))
        env.eq("C15", "tube Iy == Iz == pi (ro^4 - ri^4) / 4", o["Iy"], pi * (r2 ** 4 - r1 ** 4) / 4)
        env.eq("C15", "tube Iz == Iy", o["Iz"], o["Iy"])
        env.eq("C15", "tube J == pi (ro^4 - ri^4) / 2", o["J"], pi * (r2 ** 4 - r1 ** 4) / 2)
        ni = env.comp("ni", lambda: cls("structures.non_intersecting_thickness.NonIntersectingThickness")(surface=s))
        j = ni.inputs()
        env.eq("C15", "thickness constraint == thickness - radius (<= 0 iff the wall fits)", ni.compute(j)["thickness_intersects"], j["thickness"] - j["radius"])


@job("c15.FailureKS", ("C15", "C20"), cfgs=product([dict(nx=2, ny=2), dict(nx=2, ny=3)], [dict(symmetry=True, side="left")],
                                              [dict(model="tube"), dict(model="wingbox")]), ranges=((r"vonmises", 0.0, 1e12),))
def failure_ks(env, model, **cfg):
    """KS = fmax + (1/rho) log(sum exp(rho (f_i - fmax))): on every arg-max path the exponent of the maximal entry is 0 and
    all other exponents are <= 0 (no overflow), hence fmax <= KS <= fmax + ln(N)/rho."""
    import math
    from .. import smt
    import z3
    s = surf_of(dict(cfg, model=model))
    rho = 60.0                 # not the default of the option: a value read before the option is set would show
    h = env.comp("ks", lambda: cls("structures.failure_ks.FailureKS")(surface=s, rho=rho))
    ins = h.inputs()
    v = np.asarray(ins["vonmises"]).reshape(-1)
    N = len(v)
    if not env.sym:
        out = s0(h.compute(ins)["failure"])
        f = v / s["yield"] - 1
        ok = bool(np.isfinite(out)) and f.max() - 1e-9 * abs(f.max()) <= out <= f.max() + math.log(N) / rho + 1e-9 * abs(f.max())
        # and at stresses that lie within 1/rho of each other (where the aggregate differs visibly from the maximum): the
        # value is the log-sum-exp with the *requested* rho
        v2 = s["yield"] * (1 + (v / 1e12) / rho)
        out2 = s0(h.compute(dict(vonmises=v2.reshape(np.shape(ins["vonmises"]))))["failure"])
        f2 = v2 / s["yield"] - 1
        ref2 = f2.max() + math.log(np.exp(rho * (f2 - f2.max())).sum()) / rho
        ok2 = abs(out2 - ref2) <= 1e-9 * (1 + abs(ref2))
        env.holds("C15,C20", "KS aggregation: every exponent is <= 0 with the maximal entry's exponent 0 (no overflow) and fmax <= KS <= fmax + ln(N)/rho",
                  ok and ok2, "KS = %r, max = %r; clustered stresses: KS = %r, log-sum-exp with the requested rho = %r" % (out, f.max(), out2, ref2))
        return
    env.generic_position(True)
    npaths = 0
    for path, outs in env.explore(lambda: h.compute(ins)):
        npaths += 1
        out = s0(outs["failure"])
        f = [x / s["yield"] - 1 for x in v]
        # which entry is maximal on this path
        imax = None
        for c, b in path:
            if isinstance(c, tuple) and c[0] == 'argmax' and b:
                imax = c[1]
        if imax is None:
            imax = N - 1
        fmax = f[imax]
        ok = True
        why = ""
        rest = out - fmax
        # rest must be (1/rho) * log(1 + sum_{j != imax} exp(rho (f_j - fmax)))
        if len(rest.p) != 1:
            ok, why = False, "KS - fmax is not a single log term"
        else:
            (m, c), = rest.p.items()
            if len(m) != 1 or m[0][1] != 1 or S.A.kind[m[0][0]] != 'log' or c != S._tofrac(1 / rho):
                ok, why = False, "KS - fmax is not (1/rho) log(...)"
            else:
                arg = S.A.info[m[0][0]]
                want = RF.const(1)
                for j in range(N):
                    if j != imax:
                        want = want + S.transc('exp', S._tofrac(rho) * (f[j] - fmax))
                if not S.iszero(arg - want):
                    ok, why = False, "log argument is not 1 + sum exp(rho (f_j - fmax))"
        env.holds("C15,C20", "KS aggregation: every exponent is <= 0 with the maximal entry's exponent 0 (no overflow) and fmax <= KS <= fmax + ln(N)/rho",
                  ok, why)
    env.holds("C15", "KS: one path per possible maximal entry was explored", npaths == N, "%d paths for %d entries" % (npaths, N))
    # the analytic lemma over the abstracted atoms: e_j = exp(u_j) with u_j <= 0 gives 0 < e_j <= 1 (axiom), so
    # 1 <= 1 + sum e_j <= N and, log being increasing with log 1 = 0 (axioms), 0 <= log(..) <= log N
    es = [z3.Real("e%d" % j) for j in range(N - 1)]
    hyp = z3.And([z3.And(e > 0, e <= 1) for e in es]) if es else z3.BoolVal(True)
    tot = 1 + sum(es) if es else z3.RealVal(1)
    r, model_ = smt.prove(z3.Implies(hyp, z3.And(tot >= 1, tot <= N)))
    env.holds("C15", "KS bound lemma (z3, linear): 0 < e_j <= 1 implies 1 <= 1 + sum e_j <= N", r == "proved", "z3: %s %s" % (r, model_))
    env.assumptions.add("real-analysis axioms used by the KS bound: exp(u) in (0,1] for u <= 0; log increasing, log 1 = 0")


@job("c15.wingbox_rotation", ("C15",), cfgs=[dict(ny=2, cs=(3, 5, -4, 5)), dict(ny=2, cs=(3, 5, 4, 5)), dict(ny=2, cs=(12, 13, 5, 13), _tier=T)], ranges=R, cost=30)
def wingbox_rotation(env, ny, cs):
    """frame indifference of the wingbox stress recovery for a spar lying in a horizontal plane: turning the structure and its
    displacement field together about the vertical axis (exact rational rotation, here by more than 45 degrees / less than 45
    degrees) leaves the four stress combinations unchanged - the recovery uses the local axes the section properties are
    defined in (element axis, vertical, their cross product) for every sweep"""
    from .c10 import matmul
    s, h = _vm(env, dict(nx=2, ny=ny, symmetry=True, side="left"), "wingbox")
    ins = dict(h.inputs())
    # the spar runs in the +y direction with a sweep of atan(1/5) before and more than 45 degrees after the turn (the local
    # vertical axis of the recovery points the same way in both positions: the recovery's sign convention follows the sign
    # of the spanwise component of the element axis, which the turn preserves here)
    P0 = np.array(ins["nodes"], dtype=object if env.sym else float)[0]
    w = env.var("w", (ny - 1,))
    rows = [P0 * np.array([1, 1, 0])]
    for e in range(ny - 1):
        rows.append(rows[-1] + w[e] * w[e] * np.array([env.frac(1, 5), env.frac(1), 0 * env.frac(1)], dtype=object if env.sym else float))
    nodes = np.array(rows, dtype=object if env.sym else float)
    ins["nodes"] = nodes
    c, s_ = env.frac(cs[0], cs[1]), env.frac(cs[2], cs[3])
    Rz = np.array([[c, -s_, 0 * c], [s_, c, 0 * c], [0 * c, 0 * c, 1 + 0 * c]], dtype=object if env.sym else float)
    rot = lambda v: matmul(env, np.asarray(v, dtype=object if env.sym else float).reshape(-1, 3), Rz.T).reshape(np.shape(v))
    vm1 = h.compute(ins)["vonmises"]
    ins2 = dict(ins, nodes=rot(nodes), disp=rot(ins["disp"]))
    h2 = env.comp("vm.rot", h.factory)
    vm2 = h2.compute(ins2)["vonmises"]
    env.eq("C15", "wingbox von Mises stresses are unchanged when spar and displacements are turned about the vertical axis", vm2, vm1)
