"""An independently written vortex-lattice reference (spec), from the property statement and the textbook
(Katz & Plotkin): vortex rings on the quarter-chord lattice, last-row rings closed at infinity by two legs trailing along
the angle-of-attack direction, collocation points at 3/4 chord, Kutta-Joukowski force on the bound segment at 1/4 chord.
Written over an abstract array namespace `xp` so that the same text runs on exact terms and on floats.
`seg(r1, r2)` and `semi(u, r)` are the unit-strength induced-velocity kernels of a straight segment X1->X2 seen from P
(r1 = P - X1, r2 = P - X2) and of a semi-infinite filament leaving X along u (r = P - X)."""
import numpy as np


def seg_textbook(xp, r1, r2):
    """Biot-Savart, straight segment (Katz & Plotkin eq. 10.115): (r1 x r2)/|r1 x r2|^2 * r0.(r1/|r1| - r2/|r2|) / (4 pi)"""
    c = xp.cross(r1, r2)
    r0 = r1 - r2
    n1 = xp.sqrt((r1 * r1).sum())
    n2 = xp.sqrt((r2 * r2).sum())
    return c / (c * c).sum() * ((r0 * r1).sum() / n1 - (r0 * r2).sum() / n2) / (4 * xp.pi)


def semi_textbook(xp, u, r):
    """limit of the segment formula for X2 = X + t u, t -> infinity: (u x r) / (|r| (|r| - u.r)) / (4 pi)"""
    n = xp.sqrt((r * r).sum())
    return xp.cross(u, r) / (n * (n - (u * r).sum())) / (4 * xp.pi)


class Surface:
    def __init__(self, mesh, symmetry):
        self.mesh = mesh
        self.symmetry = symmetry
        self.nx, self.ny = mesh.shape[0], mesh.shape[1]
        self.npanels = (self.nx - 1) * (self.ny - 1)


def _lattice(xp, s, left):
    """ring-corner lattice of the full (mirrored if symmetric) surface, columns ordered by increasing y; returns the
    lattice and, for each modelled panel column j, (its column in the lattice, the column of its mirror image or None)"""
    M = s.mesh
    nx, ny = s.nx, s.ny
    if s.symmetry:
        mirror = M * np.array([1, -1, 1])
        if left:
            full = np.concatenate([M, mirror[:, :-1][:, ::-1]], axis=1)
            cols = [(j, 2 * ny - 3 - j) for j in range(ny - 1)]
        else:
            full = np.concatenate([mirror[:, 1:][:, ::-1], M], axis=1)
            cols = [(ny - 1 + j, ny - 2 - j) for j in range(ny - 1)]
    else:
        full = M
        cols = [(j, None) for j in range(ny - 1)]
    R = full.copy()
    R[:-1] = 0.75 * full[:-1] + 0.25 * full[1:]
    return R, cols


def ring_influence(xp, R, i, jc, P, u, seg, semi, last):
    """velocity induced at P by the unit-strength ring of lattice panel (i, jc); corners A (right, front), B (left, front),
    C (left, rear), D (right, rear); sense A -> B -> C -> D -> A; a last-row ring is closed at infinity along u"""
    A, B, C, D = R[i, jc + 1], R[i, jc], R[i + 1, jc], R[i + 1, jc + 1]
    v = seg(P - A, P - B) + seg(P - B, P - C) + seg(P - D, P - A)
    if last:
        v = v + semi(u, P - C) - semi(u, P - D)
    else:
        v = v + seg(P - C, P - D)
    return v


def reflect_ground(xp, P, alpha, h):
    """mirror image of point(s) P across the ground plane: the plane parallel to the free stream (angle of attack alpha)
    at distance h below the origin; n = (sin a, 0, -cos a) is its downward unit normal, p = h n a point on it"""
    sa, ca = xp.sin(alpha), xp.cos(alpha)
    n = _vec(xp, [sa, 0 * sa, -ca])
    d = ((P - h * n) * n).sum(axis=-1)
    return P - 2 * d[..., None] * n


def assemble(xp, surfaces, lefts, alpha, beta, v, seg, semi, omega=None, cg=None, ground_h=None):
    """returns dict with collocation points, force points, bound vectors, onset velocities and the two influence
    arrays AIC_c[e, p, 3], AIC_f[e, p, 3] (e: evaluation panel, p: influencing panel; global panel order = surfaces in
    list order, panels row-major (chordwise, then spanwise in the mesh's own order))"""
    ca, sa, cb, sb = xp.cos(alpha), xp.sin(alpha), xp.cos(beta), xp.sin(beta)
    zero = 0 * ca
    d_hat = _vec(xp, [ca * cb, -sb, sa * cb])              # free-stream direction at angle of attack alpha, sideslip beta
    u = _vec(xp, [ca, zero, sa])                           # wakes trail along the angle-of-attack direction
    coll, force, bound = [], [], []
    for s in surfaces:
        M = s.mesh
        for i in range(s.nx - 1):
            for j in range(s.ny - 1):
                coll.append(0.5 * (0.25 * M[i, j] + 0.75 * M[i + 1, j]) + 0.5 * (0.25 * M[i, j + 1] + 0.75 * M[i + 1, j + 1]))
                force.append(0.5 * (0.75 * M[i, j] + 0.25 * M[i + 1, j]) + 0.5 * (0.75 * M[i, j + 1] + 0.25 * M[i + 1, j + 1]))
                # bound segment of the ring (front segment A -> B) on the quarter-chord line
                bound.append((0.75 * M[i, j] + 0.25 * M[i + 1, j]) - (0.75 * M[i, j + 1] + 0.25 * M[i + 1, j + 1]))
    n = len(coll)
    onset = []
    for e in range(n):
        ve = v * d_hat
        if omega is not None:
            ve = ve + xp.cross(omega, coll[e] - cg)
        onset.append(ve)
    AIC = {}
    for which, pts in (("c", coll), ("f", force)):
        rows = []
        for e in range(n):
            row = []
            for s, left in zip(surfaces, lefts):
                R, cols = _lattice(xp, s, left)
                for i in range(s.nx - 1):
                    last = i == s.nx - 2
                    for j in range(s.ny - 1):
                        jc, jm = cols[j]
                        w = ring_influence(xp, R, i, jc, pts[e], u, seg, semi, last)
                        if jm is not None:
                            w = w + ring_influence(xp, R, i, jm, pts[e], u, seg, semi, last)
                        if ground_h is not None:
                            # method of images: the mirror image of every ring across the ground plane, same corner
                            # order, opposite strength
                            Rg = reflect_ground(xp, R, alpha, ground_h)
                            w = w - ring_influence(xp, Rg, i, jc, pts[e], u, seg, semi, last)
                            if jm is not None:
                                w = w - ring_influence(xp, Rg, i, jm, pts[e], u, seg, semi, last)
                        row.append(w)
            rows.append(row)
        AIC[which] = rows
    return dict(coll=coll, force=force, bound=bound, onset=onset, AIC_c=AIC["c"], AIC_f=AIC["f"], d_hat=d_hat, n=n)


def _vec(xp, comps):
    if any(getattr(c, "p", None) is not None for c in comps):
        a = np.empty(len(comps), dtype=object)
        for k, c in enumerate(comps):
            a[k] = c
        return a
    return np.array([float(c) for c in comps])


def tangency_system(xp, ref, normals):
    """A[e, p] = AIC_c[e, p] . n_e ; b[e] = - onset[e] . n_e"""
    n = ref["n"]
    A = [[(ref["AIC_c"][e][p] * normals[e]).sum() for p in range(n)] for e in range(n)]
    b = [-(ref["onset"][e] * normals[e]).sum() for e in range(n)]
    return A, b


def panel_forces(xp, ref, surfaces, gamma, rho):
    """Kutta-Joukowski: F_p = rho * Gamma_h,p * (V_p x l_p); Gamma_h = ring strength minus the strength of the ring in front"""
    n = ref["n"]
    gh = []
    k = 0
    for s in surfaces:
        for i in range(s.nx - 1):
            for j in range(s.ny - 1):
                g = gamma[k]
                if i > 0:
                    g = g - gamma[k - (s.ny - 1)]
                gh.append(g)
                k += 1
    F = []
    for e in range(n):
        V = ref["onset"][e]
        for p in range(n):
            V = V + ref["AIC_f"][e][p] * gamma[p]
        F.append(rho * gh[e] * xp.cross(V, ref["bound"][e]))
    return F, gh
