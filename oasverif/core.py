"""Obligation environment: the same contract function is executed in two modes.

  mode 'sym'    : variables are arrays of fresh real variables, components are the real classes executed symbolically
                  (sx.CompSX); every obligation is decided for all real inputs by the ring normaliser (term.iszero).
  mode 'native' : variables take the float values of a witness, components are the same real objects executed
                  natively on floats; every obligation is evaluated numerically.  Used to replay a refuted obligation
                  against the real code, and to cross-check the shim.
"""
import math
import os
import random
import re
import time
import zlib
from fractions import Fraction

import numpy as np

from . import term as S
from . import sx
from . import npshim
from . import spshim
from .term import RF, OutsideFragment

NATIVE_TOL = 1e-6


def kernel_tol_mask(cond):
    """the documented guard of the vortex kernels: the contribution of a segment is dropped when |den| <= 1e-10 (constant
    threshold 1e-10 on den = |r1||r2| + r1.r2, a length squared) and nothing else"""
    if not isinstance(cond, S.SymBool) or cond.op != '>':
        return False
    p = cond.val.p
    if p.get(S.ONE) != Fraction(-1, 10 ** 10) or len(p) != 2:
        return False
    (m, c), = [(m, c) for m, c in p.items() if m != S.ONE]
    # |den| is a square root, possibly times positive scale factors of the contract (length scaling by k = c^2)
    return c > 0 and any(S.A.kind[a] == 'rad' for a, e in m) and all(S.A.kind[a] in ('rad', 'var') and (S.A.kind[a] == 'rad' or e % 2 == 0) for a, e in m)


def tiny_load_mask(cond):
    """the documented exemption of CreateRHS: the mask |x| < 1e-6 with the constant threshold 1e-6 and nothing else"""
    if not isinstance(cond, S.SymBool) or cond.op != '>':
        return False
    p = cond.val.p
    if len(p) != 2 or p.get(S.ONE) != Fraction(1, 1000000):
        return False
    (m, c), = [(m, c) for m, c in p.items() if m != S.ONE]
    # |x| is c' * sqrt(polynomial) with a positive constant c' pulled out of the root
    return c < 0 and len(m) == 1 and m[0][1] == 1 and S.A.kind[m[0][0]] == 'rad' and S.A.info[m[0][0]][0] == 2
_ANGLE_DEG = re.compile(r"(^|\.)(alpha|beta)(\[|$)")
import mpmath
MP = mpmath.mp.clone()
MP.dps = 40


class Obl:
    """one obligation group (an array of entrywise obligations with a common name)"""
    __slots__ = ("prop", "name", "n", "ok", "refuted", "undecided", "secs", "kind", "path", "sample", "known")

    def __init__(self, prop, name, kind):
        self.prop = prop
        self.name = name
        self.kind = kind
        self.n = 0
        self.ok = 0
        self.refuted = []      # dicts: entry, witness, value
        self.undecided = []
        self.secs = 0.0
        self.path = None
        self.sample = None

    def asdict(self):
        return dict(prop=self.prop, name=self.name, kind=self.kind, n=self.n, ok=self.ok, refuted=self.refuted,
                    undecided=self.undecided, secs=round(self.secs, 4), path=self.path, sample=self.sample)


def _stable_seed(*parts):
    return zlib.crc32(("|".join(str(p) for p in parts)).encode())


class Env:
    def __init__(self, mode="sym", witness=None, seed=0, ranges=None):
        self.mode = mode
        self.sym = mode == "sym"
        self.witness = witness or {}
        self.seed = seed
        self.ranges = list(ranges or [])       # [(regex, lo, hi)]
        self.obls = []
        self.numeric = {}                      # native mode: name -> (diff array, scale array)
        self.comps = {}
        self.varnames = {}                     # element name -> (lo, hi)
        self._path_conds = []                  # current path condition [(SymBool, taken)] of the running env.explore
        self._pins = {}                        # var name -> exact value forced by an equality path
        self.functions = set()                 # functions under contract touched (module.Class.method)
        self.assumptions = set()
        self.notes = []
        self.max_witness_tries = 40
        self.roundoff = 0
        self.z3_budget = int(os.environ.get('OASVERIF_Z3_BUDGET', '12'))      # second-opinion queries per job
        self.z3_every = int(os.environ.get('OASVERIF_Z3_EVERY', '7'))
        self.z3_stats = dict(unsat=0, unknown=0, sat=0, skipped=0, secs=0.0)
        self.z3_disagreements = []
        self.abs_roundoff = None
        self.indicator_branch = None   # 0/1: obligations are stated on the branch where every mask indicator has this value
        self.indicator_only = None     # predicate on the indicator's condition: only those masks are exempted
        if self.sym:
            self.xp = npshim.make(True)
            self.pi = self.xp.pi
        else:
            self.xp = np
            self.pi = np.pi

    # path condition = decisions of the whole-job pass (outer) + those of the running env.explore
    @property
    def path_conds(self):
        return [(c, b) for k, c, b in S.PATH.outer_taken] + self._path_conds

    @path_conds.setter
    def path_conds(self, v):
        outer = len(S.PATH.outer_taken)
        self._path_conds = list(v)[outer:] if len(v) >= outer and all(
            v[i][0] is S.PATH.outer_taken[i][1] for i in range(outer)) else list(v)

    @property
    def pins(self):
        out = {}
        for k, c, b in S.PATH.outer_taken:
            if isinstance(c, S.SymBool) and c.op == '==' and b:
                pin = _solve_pin(c.val)
                if pin:
                    out[pin[0]] = pin[1]
        out.update(self._pins)
        return out

    @pins.setter
    def pins(self, v):
        self._pins = dict(v)

    # ------------------------------------------------------------------ variables
    def is_log(self, name):
        for r in self.ranges:
            if re.search(r[0], name):
                return len(r) > 3 and r[3] == "log"
        return False

    def sample(self, name, rng):
        """random admissible value of a variable; ranges flagged "log" are sampled log-uniformly"""
        lo, hi = self.varnames.get(name) or self.range_for(name)
        if self.is_log(name) and lo > 0:
            return lo * (hi / lo) ** rng.random()
        return lo + (hi - lo) * rng.random()

    def range_for(self, name):
        for r in self.ranges:
            rx, lo, hi = r[0], r[1], r[2]
            if re.search(rx, name):
                return lo, hi
        if _ANGLE_DEG.search(name):
            return 3.0, 15.0                      # angles given in degrees
        return 0.3, 1.7

    def add_ranges(self, *rs):
        self.ranges = list(rs) + self.ranges

    def native_value(self, ename):
        if ename in self.witness:
            return float(self.witness[ename])
        rng = random.Random(_stable_seed(self.seed, ename))
        return self.sample(ename, rng)

    def var(self, name, shape=()):
        """fresh variable array (sym) / witness values (native)"""
        if isinstance(shape, int):
            shape = (shape,)
        shape = tuple(shape)
        if self.sym:
            a = S.symarray(name, shape)
            for idx in (np.ndindex(*shape) if shape else [()]):
                en = name + "".join("[%d]" % i for i in idx)
                self.varnames[en] = self.range_for(en)
            return a if shape else a[()]
        a = np.empty(shape, dtype=float)
        for idx in (np.ndindex(*shape) if shape else [()]):
            a[idx] = self.native_value(name + "".join("[%d]" % i for i in idx))
        return a if shape else float(a[()])

    def const(self, x):
        """exact constant in both modes"""
        if self.sym:
            return S.lift(x)
        return np.asarray(x, dtype=float) if np.ndim(x) else float(x)

    def frac(self, n, d=1):
        return RF.const(Fraction(n, d)) if self.sym else n / d

    # ------------------------------------------------------------------ components
    def comp(self, key, factory, setup_model=None):
        h = self.comps.get(key)
        if h is None:
            c = factory()
            h = Handle(self, sx.CompSX(c, setup_model=setup_model), key)
            h.factory = factory
            h.setup_model = setup_model
            self.comps[key] = h
        return h

    def call(self, fn, *args, **kw):
        """call a real repository function: under the shim (sym) or natively"""
        self.functions.add("%s.%s" % (getattr(fn, "__module__", type(fn).__module__), getattr(fn, "__qualname__", type(fn).__name__)))
        if self.sym:
            with sx.patched():
                return fn(*args, **kw)
        return fn(*args, **kw)

    def jac_of(self, y, x):
        """sym only: dense d y / d x for arrays of terms y and bare variables x"""
        y = np.asarray(y, dtype=object).reshape(-1)
        x = np.asarray(x, dtype=object).reshape(-1)
        ids = [S.var_id(v) for v in x]
        D = np.empty((len(y), len(x)), dtype=object)
        for i, yi in enumerate(y):
            deps = S.term_deps(yi) if isinstance(yi, RF) else frozenset()
            for j, a in enumerate(ids):
                D[i, j] = S.diff(yi, a) if a in deps else RF({})
        return D

    def fd_jac(self, f, x):
        """native only: Richardson central-difference Jacobian of f at x"""
        x0 = np.asarray(x, dtype=float)
        y0 = np.asarray(f(x0), dtype=float).reshape(-1)
        D = np.zeros((y0.size, x0.size))
        for j in range(x0.size):
            h = 1e-4 * max(1.0, abs(x0.reshape(-1)[j]))
            e = np.zeros(x0.size)
            e[j] = 1.0
            e = e.reshape(x0.shape)
            g = lambda s: np.asarray(f(x0 + s * e), dtype=float).reshape(-1)
            d1 = (g(h) - g(-h)) / (2 * h)
            d2 = (g(h / 2) - g(-h / 2)) / h
            D[:, j] = (4 * d2 - d1) / 3
        return D

    def deriv(self, f, x):
        """d f(x) / d x as a dense matrix: engine differentiation of the real function's term (sym) or finite
        differences of the real function (native)"""
        if self.sym:
            return self.jac_of(self.call(f, x), x)
        return self.fd_jac(f, x)

    def deriv_at(self, f, name, shape, point=0.0):
        """dense d f(x) / d x evaluated at x = point (a constant): engine differentiation followed by exact
        substitution (sym) / Richardson central differences of the real code around the point (native)"""
        if self.sym:
            x = S.symarray(name, shape)
            y = f(x)
            J = self.jac_of(y, x)
            mapping = {S.var_id(v): RF.const(S._tofrac(point)) for v in np.asarray(x, dtype=object).reshape(-1)}
            return S.subs_array(J, mapping)
        return self.fd_jac(lambda t: f(np.asarray(t, dtype=float).reshape(shape)), np.full(shape, float(point)))

    def at(self, expr, xs, point=0.0):
        """sym: expr with the variables of array xs replaced by the constant point; native: expr unchanged (the caller
        passes the point itself natively)"""
        if self.sym:
            mapping = {S.var_id(v): RF.const(S._tofrac(point)) for v in np.asarray(xs, dtype=object).reshape(-1)}
            return S.subs_array(np.asarray(expr, dtype=object), mapping)
        return expr

    # ------------------------------------------------------------------ obligations
    def _new(self, prop, name, kind):
        if S.PATH.outer_taken:
            # obligations of a whole-job pass carry the decisions taken so far in their name (one obligation per path)
            ot = ";".join("%s=%s" % (repr(c)[:40], "T" if b else "F") for k, c, b in S.PATH.outer_taken)
            name = "%s @path(job: %s)" % (name, ot) if " @path(" not in name else name.replace(" @path(", " @path(job: %s; " % ot, 1)
        o = Obl(prop, name, kind)
        o.path = [(repr(c), b) for c, b in self.path_conds] or None
        self.obls.append(o)
        return o

    def eq(self, prop, name, lhs, rhs=0, scale=None):
        """entrywise lhs == rhs"""
        t0 = time.time()
        if self.sym:
            o = self._new(prop, name, "identity")
            L = np.asarray(lhs, dtype=object)
            R = np.asarray(rhs, dtype=object)
            if L.shape != R.shape:
                try:
                    L, R = np.broadcast_arrays(L, R)
                except ValueError:
                    o.n = 1
                    o.refuted.append(dict(entry=None, reason="shape mismatch %s vs %s" % (L.shape, R.shape)))
                    return o
            for idx in (np.ndindex(*L.shape) if L.shape else [()]):
                o.n += 1
                l, r = L[idx], R[idx]
                l = l if isinstance(l, RF) else RF.const(S._tofrac(l))
                d = l - r
                if self.indicator_branch is not None and d.p:
                    d = S.subs_indicators(d, self.indicator_branch, self.indicator_only)
                if d.p:
                    d = self._drop_roundoff(d, l, r)
                d0 = d if (isinstance(d, RF) and d.p and not d.is_const()) else None
                if self._decide_zero(o, idx, d):
                    o.ok += 1
                    if d0 is not None and self.z3_budget > 0 and (zlib.crc32(("%s|%s|%s" % (self.seed, name, idx)).encode()) % self.z3_every) == 0:
                        self._second_opinion(o, idx, d0)
                if o.sample is None and isinstance(l, RF) and len(l.p) > 0:
                    o.sample = "%s%s: %s == %s" % (name, list(idx), S.show(l, 4), S.show(r if isinstance(r, RF) else RF.const(S._tofrac(r)), 4))
            o.secs = time.time() - t0
            return o
        L = np.asarray(lhs, dtype=float)
        R = np.asarray(rhs, dtype=float)
        L, R = np.broadcast_arrays(L, R)
        sc = np.abs(L) + np.abs(R)
        self.numeric[name] = (np.abs(L - R), sc, L.copy(), R.copy())
        return None

    def _second_opinion(self, o, idx, d):
        """the same obligation exported to z3 (QF_NRA with the atoms' defining equations): the normaliser said the
        difference is identically zero although it is not syntactically zero -- z3 should find 'd != 0' unsatisfiable"""
        from . import smt
        t0 = time.time()
        try:
            r = smt.second_opinion(d)
        except Exception as e:          # export problems never affect the verdict
            r = "skipped"
        self.z3_stats[r] = self.z3_stats.get(r, 0) + 1
        self.z3_stats["secs"] += time.time() - t0
        if r != "skipped":
            self.z3_budget -= 1
        if r == "sat":
            self.z3_disagreements.append("%s%s" % (o.name, list(idx)))

    def _drop_roundoff(self, d, l, r):
        """floats are treated as reals: concrete sub-computations done by real numpy before the engine sees them carry
        round-off (1e-16 relative).  A monomial of lhs-rhs is dropped when its coefficient is the difference of two
        coefficients of the *same* monomial in lhs and rhs that agree to 1e-11 relative (counted in self.roundoff)."""
        rp = r.p if isinstance(r, RF) else ({S.ONE: S._tofrac(r)} if S._tofrac(r) else {})
        lp = l.p
        small = None
        thr = None
        if self.abs_roundoff is not None:
            mx = max([abs(c) for c in lp.values()] + [abs(c) for c in rp.values()] + [0])
            thr = max(mx, 1) * Fraction(self.abs_roundoff)
        for m, c in d.p.items():
            if thr is not None and abs(c) <= thr:
                if small is None:
                    small = set()
                small.add(m)
                continue
            a = lp.get(m)
            b = rp.get(m)
            if a is None or b is None:
                continue
            if abs(c) * 10 ** 11 <= max(abs(a), abs(b)):
                if small is None:
                    small = set()
                small.add(m)
        if not small:
            return d
        self.roundoff += 1
        return RF({m: c for m, c in d.p.items() if m not in small})

    def _decide_zero(self, o, idx, d):
        if not d.p:
            return True
        if d.is_const():
            o.refuted.append(dict(entry=list(idx), witness=dict(self.pins), value=float(d.cval()), reason="constant non-zero difference"))
            return False
        # refute first: a difference that is visibly non-zero at a sampled admissible point needs no normal form (the
        # normal form of a genuinely non-zero rational function can be far larger than that of a zero one)
        w = self.find_witness(d, tries=2)
        if w is not None:
            o.refuted.append(dict(entry=list(idx), witness=w[0], value=w[1]))
            return False
        try:
            if S.iszero(d):
                return True
        except S.TooBig as e:
            w = self.find_witness(d)
            if w is not None:
                o.refuted.append(dict(entry=list(idx), witness=w[0], value=w[1]))
            else:
                o.undecided.append(dict(entry=list(idx), reason="normal form too large (%s monomials)" % e))
            return False
        # non-zero normal form: search a numerical witness (not a refutation by itself)
        w = self.find_witness(d)
        if w is None:
            o.undecided.append(dict(entry=list(idx), reason="non-zero normal form but numerically zero at all sampled points",
                                    normal_form_terms=len(d.p)))
            return False
        env, val = w
        o.refuted.append(dict(entry=list(idx), witness=env, value=val))
        return False

    def find_witness(self, d, tries=None, want=lambda v, s: abs(v) > 1e-7 * (1 + s)):
        """numeric point where term d is non-zero: returns ({var name: value}, value) or None"""
        vs = set(S.term_deps(d))
        for c, b in self.path_conds:
            if isinstance(c, S.SymBool):
                vs |= S.term_deps(c.val)
            elif isinstance(c, tuple) and c and c[0] == 'argmax':
                for x in c[2]:
                    vs |= S.term_deps(x)
            elif isinstance(c, tuple) and c and c[0] == 'alleq':
                for x in c[1]:
                    vs |= S.term_deps(x)
        vars_ = sorted(vs)
        # an array comparison taken as equal: each  a - b == 0  between two variables ties b to a
        ties = []
        zero_pins = []
        for c, b in self.path_conds:
            if b and isinstance(c, tuple) and c and c[0] == 'alleq':
                for x in c[1]:
                    pr = _solve_pair(x)
                    if pr:
                        ties.append(pr)
                    else:
                        pn = _solve_pin(x)                     # c1 * var + c0 == 0
                        if pn:
                            zero_pins.append(pn)
            elif b and isinstance(c, S.SymBool) and c.op == '==':
                pr = _solve_pair(c.val)
                if pr:
                    ties.append(pr)
        rng = random.Random(_stable_seed(self.seed, "w", len(d.p)))
        best = None
        found = 0
        # previous-state variables "P.<name>[i][j]..." and their current counterparts: besides independent random values,
        # structured previous states are tried - the same point, its negative, its arrays reversed or transposed (states
        # that agree with the current one in norms, sums or sorted content, which random sampling never produces)
        byname = {S.A.names[a]: a for a in vars_}
        prev = {}
        for nm, a in byname.items():
            if nm.startswith("P.") and nm[2:] in byname:
                prev[a] = nm[2:]
        shapes = {}
        for a, cur in prev.items():
            base = cur.split("[")[0]
            idx = tuple(int(x) for x in re.findall(r"\[(\d+)\]", cur))
            sh = shapes.setdefault(base, [0] * len(idx))
            if len(sh) == len(idx):
                for k_, i_ in enumerate(idx):
                    sh[k_] = max(sh[k_], i_ + 1)

        def structured(kind, cur):
            base = cur.split("[")[0]
            idx = [int(x) for x in re.findall(r"\[(\d+)\]", cur)]
            sh = shapes.get(base, [])
            if kind == "reversed" and idx and len(sh) == len(idx):
                idx = [sh[k_] - 1 - i_ for k_, i_ in enumerate(idx)]
            elif kind == "transposed" and len(idx) == 2 and len(sh) == 2 and sh[0] == sh[1]:
                idx = idx[::-1]
            return base + "".join("[%d]" % i_ for i_ in idx)
        plans = ([None] * 2 + ["same", "negated", "reversed", "transposed"] if prev and not tries else []) + [None] * (tries or self.max_witness_tries)
        for plan in plans:
            env = {}
            named = dict(self.pins)
            for a in vars_:
                nm = S.A.names[a]
                if nm == "pi":
                    v = math.pi
                elif nm in self.pins:
                    v = self.pins[nm]
                else:
                    v = self.sample(nm, rng)
                    v = float(Fraction(v).limit_denominator(1000)) if abs(v) > 0.05 else float("%.3g" % v)
                env[a] = v
                named[nm] = v
            if plan is not None:
                for a, cur in prev.items():
                    src = byname.get(structured(plan, cur) if plan in ("reversed", "transposed") else cur)
                    if src is None:
                        continue
                    v = -env[src] if plan == "negated" else env[src]
                    env[a] = v
                    named[S.A.names[a]] = v
            for keep, tied in ties:
                if keep in env and tied in env:
                    env[tied] = env[keep]
                    named[S.A.names[tied]] = env[keep]
            for nm_, val_ in zero_pins:
                a_ = byname.get(nm_)
                if a_ is not None:
                    env[a_] = float(val_)
                    named[nm_] = float(val_)
            try:
                if not self._path_ok(env):
                    if plan is not None and os.environ.get("OASVERIF_DEBUG_WITNESS"):
                        for c_, b_ in self.path_conds:
                            if isinstance(c_, S.SymBool):
                                print("  plan %s: cond %s wanted %s value %r" % (plan, repr(c_)[:80], b_, S.evalf(c_.val, env)))
                    continue
                val = S.evalf(d, env)
                if plan is not None and os.environ.get("OASVERIF_DEBUG_WITNESS"):
                    print("  plan %s: path ok, value %r of %s" % (plan, val, S.show(d, 4)[:120]))
                # scale: sum of absolute monomial values
                sc = 0.0
                cache = {}
                for m, c in d.p.items():
                    sc = max(sc, abs(S.evalf(RF({m: c}), env, cache)))
            except (S.Undefined, OverflowError, ZeroDivisionError, ValueError) as ex_:
                if plan is not None and os.environ.get("OASVERIF_DEBUG_WITNESS"):
                    print("  plan %s: exception %r" % (plan, ex_))
                continue
            if isinstance(val, complex) or val != val:
                continue
            if abs(val) > 1e-7 * max(sc, 1e-300) and abs(val) > 1e-12:
                try:
                    v2 = float(S.evalf(d, env, None, MP))
                except (S.Undefined, ZeroDivisionError, ValueError):
                    continue
                if abs(v2) > 1e-9 * max(sc, 1e-300) and abs(v2) > 1e-14:
                    # prefer a witness at which the difference is large compared with the terms it is made of (a weak one
                    # may drown in the round-off of the native replay): look at a few more points unless this one is strong
                    strength = abs(v2) / (1.0 + sc)
                    if best is None or strength > best[2]:
                        best = (named, v2, strength)
                    found += 1
                    if strength > 1e-4 or found >= 4:
                        return best[0], best[1]
        if best is not None:
            return best[0], best[1]
        return None

    def _path_ok(self, env):
        return _taken_ok([(None, c, b) for c, b in self.path_conds], env)

    def nodep(self, prop, name, expr, prefix):
        """no entry of expr depends on a variable whose name starts with prefix (independence / frame obligation)"""
        t0 = time.time()
        if self.sym:
            o = self._new(prop, name, "independence")
            E = np.asarray(expr, dtype=object)
            for idx in (np.ndindex(*E.shape) if E.shape else [()]):
                o.n += 1
                e = E[idx]
                bad = [S.A.names[a] for a in S.term_deps(e) if S.A.names[a].startswith(prefix)] if isinstance(e, RF) else []
                if not bad:
                    o.ok += 1
                    continue
                if len(e.p) == 1 and len(bad) == 1:
                    (m, c), = e.p.items()
                    if c == 1 and len(m) == 1 and m[0][1] == 1 and S.A.kind[m[0][0]] == 'var':
                        # the entry is never written: it keeps whatever the storage held (its declared value in a
                        # live Problem) -- not a dependence on history
                        o.ok += 1
                        continue
                # does the value really change with the havoc variable?
                a = S.A.by_key[('var', bad[0])]
                dd = S.diff(e, a)
                if S.iszero(dd):
                    o.ok += 1
                    continue
                w = self.find_witness(dd)
                if w is None:
                    o.undecided.append(dict(entry=list(idx), reason="depends syntactically on %s" % bad[0]))
                else:
                    o.refuted.append(dict(entry=list(idx), witness=w[0], value=w[1], depends_on=bad[0]))
            o.secs = time.time() - t0
            return o
        return None

    def holds(self, prop, name, cond, detail=None, static=False):
        """a concrete boolean obligation (index arithmetic, structure): decided by evaluation.  static=True: a condition on
        the program text (frame scan); its failure is reported without a failing input"""
        if static and not self.sym:
            return None
        o = self._new(prop, name, "concrete") if self.sym else None
        if o is not None:
            o.n = 1
            if bool(cond):
                o.ok = 1
            else:
                o.refuted.append(dict(entry=None, witness={}, reason=detail or "concrete condition is false"))
        else:
            self.numeric[name] = (np.array([0.0 if bool(cond) else 1.0]), np.array([1.0]), np.array([0.0]), np.array([0.0]))
        return o

    def sign_on_box(self, prop, name, exprs, bounds, sign=1, max_boxes=6000):
        """every entry of exprs has the given sign (+1: > 0, -1: < 0) for all variable values inside the closed box
        `bounds` [(regex on the variable name, lo, hi)]: interval branch-and-bound (outward-rounded interval arithmetic of
        mpmath.iv over the term, bisection of the variable with the largest width x |sensitivity|).  A sub-box whose
        mid-point has the wrong sign refutes (witness); an exhausted budget is undecided"""
        from mpmath import iv
        t0 = time.time()
        E = np.asarray(exprs, dtype=object if self.sym else float)
        if not self.sym:
            ok = (E > 0) if sign > 0 else (E < 0)
            self.numeric[name] = (np.where(ok, 0.0, 1.0), np.ones(E.shape), E.copy(), np.zeros(E.shape))
            return None
        o = self._new(prop, name, "sign")

        def rng(nm):
            for rx, lo, hi in bounds:
                if re.search(rx, nm):
                    return float(lo), float(hi)
            raise KeyError("sign_on_box: no bound for variable %s" % nm)
        nboxes = 0
        for idx in (np.ndindex(*E.shape) if E.shape else [()]):
            o.n += 1
            e = E[idx]
            if not isinstance(e, RF) or e.is_const():
                c = float(e.cval()) if isinstance(e, RF) else float(e)
                if c * sign > 0:
                    o.ok += 1
                else:
                    o.refuted.append(dict(entry=list(idx), witness={}, value=c))
                continue
            vars_ = sorted(a for a in S.term_deps(e) if S.A.names[a] != "pi")
            try:
                box0 = {a: rng(S.A.names[a]) for a in vars_}
            except KeyError as ex:
                o.undecided.append(dict(entry=list(idx), reason=str(ex)))
                continue
            import heapq
            import itertools as _it
            tick = _it.count()

            def vol(b):
                v = 1.0
                for a, (lo, hi) in b.items():
                    v *= (hi - lo) / max(box0[a][1] - box0[a][0], 1e-300)
                return v
            todo = [(-1.0, next(tick), box0)]              # largest boxes first: a region of the wrong sign is met early
            verdict = None
            used = 0
            while todo:
                _, _, bx = heapq.heappop(todo)
                used += 1
                if used > max_boxes:
                    verdict = ("undecided", "interval branch-and-bound budget of %d boxes exhausted" % max_boxes)
                    break
                ivb = {a: iv.mpf([lo, hi]) for a, (lo, hi) in bx.items()}
                try:
                    enc = S.evaliv(e, ivb)
                    lo_, hi_ = float(enc.a), float(enc.b)
                    if (sign > 0 and lo_ > 0) or (sign < 0 and hi_ < 0):
                        continue
                except S.IvUnknown as ex:
                    lo_, hi_ = None, None
                # mid-point: a wrong sign there refutes
                mid = {a: 0.5 * (lo + hi) for a, (lo, hi) in bx.items()}
                try:
                    vm = float(S.evalf(e, dict(mid, **{a: math.pi for a in S.term_deps(e) if S.A.names[a] == "pi"}), None, MP))
                    if vm * sign <= 0 and abs(vm) > 0:
                        verdict = ("refuted", {S.A.names[a]: v for a, v in mid.items()}, vm)
                        break
                except (S.Undefined, ZeroDivisionError, ValueError, OverflowError):
                    pass
                # bisect the variable whose halves bring the enclosure closest to the wanted sign: score = the worse of the two
                # halves' lo/hi (sign +) resp. hi/lo (sign -), which is invariant under positive factors common to all terms
                best, score, best_rel = None, None, 0.0
                for a, (lo, hi) in bx.items():
                    w = hi - lo
                    if w <= 1e-9 * max(1.0, abs(lo), abs(hi)):
                        continue
                    m_ = math.sqrt(lo * hi) if (lo > 0 and hi / lo > 4.0) else 0.5 * (lo + hi)      # wide positive ranges split geometrically
                    sc = 0.0
                    try:
                        worst = None
                        for part in ((lo, m_), (m_, hi)):
                            ivb2 = dict(ivb)
                            ivb2[a] = iv.mpf(list(part))
                            en = S.evaliv(e, ivb2)
                            ea, eb = float(en.a), float(en.b)
                            if sign > 0:
                                q = 1.0 if ea > 0 else ea / max(abs(eb), abs(ea), 1e-300)
                            else:
                                q = 1.0 if eb < 0 else -eb / max(abs(eb), abs(ea), 1e-300)
                            worst = q if worst is None else min(worst, q)
                        sc = worst
                    except S.IvUnknown:
                        sc = -2.0 + w / max(abs(lo), abs(hi), 1e-30) * 1e-3        # singular box: prefer the relatively widest variable
                    rel = (hi / lo) if lo > 0 else 1.0 + w
                    if score is None or sc > score + 1e-12 or (abs(sc - score) <= 1e-12 and rel > best_rel):
                        best, score, best_rel = a, sc, rel
                if best is None:
                    verdict = ("undecided", "box cannot be split further")
                    break
                lo, hi = bx[best]
                m_ = math.sqrt(lo * hi) if (lo > 0 and hi / lo > 4.0) else 0.5 * (lo + hi)
                b1 = dict(bx); b1[best] = (lo, m_)
                b2 = dict(bx); b2[best] = (m_, hi)
                heapq.heappush(todo, (-vol(b1), next(tick), b1))
                heapq.heappush(todo, (-vol(b2), next(tick), b2))
            nboxes += used
            if verdict is None:
                o.ok += 1
                if o.sample is None:
                    o.sample = "%s%s: sign(%s) == %+d on the box (%d interval boxes)" % (name, list(idx), S.show(e, 3), sign, used)
            elif verdict[0] == "refuted":
                o.refuted.append(dict(entry=list(idx), witness=verdict[1], value=verdict[2], solver="interval branch-and-bound: wrong sign at a box mid-point"))
            else:
                o.undecided.append(dict(entry=list(idx), reason=verdict[1]))
        o.secs = time.time() - t0
        self.iv_boxes = getattr(self, "iv_boxes", 0) + nboxes
        return o

    def positive(self, prop, name, exprs, bounds):
        """every entry of exprs is > 0 for all variable values inside the box `bounds` {variable name: (lo, hi)} (closed
        intervals): polynomial obligations discharged by z3 (QF_NRA); refuted ones carry z3's model as witness"""
        from . import smt
        import z3
        t0 = time.time()
        E = np.asarray(exprs, dtype=object if self.sym else float)
        if not self.sym:
            self.numeric[name] = (np.where(E > 0, 0.0, 1.0), np.ones(E.shape), E.copy(), np.zeros(E.shape))
            return None
        o = self._new(prop, name, "sign")
        for idx in (np.ndindex(*E.shape) if E.shape else [()]):
            o.n += 1
            e = E[idx]
            if not isinstance(e, RF):
                if e > 0:
                    o.ok += 1
                else:
                    o.refuted.append(dict(entry=list(idx), witness={}, value=float(e)))
                continue
            if e.is_const():
                if e.cval() > 0:
                    o.ok += 1
                else:
                    o.refuted.append(dict(entry=list(idx), witness=dict(self.pins), value=float(e.cval())))
                continue
            names = {}
            z = smt.poly_to_z3(e, names)
            if z is None:
                o.undecided.append(dict(entry=list(idx), reason="sign obligation is not polynomial in the variables"))
                continue
            hyp = []
            for nm, v in names.items():
                lo, hi = None, None
                for rx, (a, b) in bounds.items():
                    if re.search(rx, nm):
                        lo, hi = a, b
                        break
                if lo is not None:
                    hyp.append(v >= lo)
                if hi is not None:
                    hyp.append(v <= hi)
            r, model = smt.prove(z3.Implies(z3.And(hyp) if hyp else z3.BoolVal(True), z > 0), timeout_ms=20000)
            if r == "proved":
                o.ok += 1
                if o.sample is None:
                    o.sample = "%s%s: %s > 0 on the box (z3 unsat of the negation)" % (name, list(idx), S.show(e, 4))
            elif r == "refuted":
                w = {}
                s_ = z3.Solver()
                s_.add(z3.And(hyp) if hyp else z3.BoolVal(True), z3.Not(z > 0))
                if s_.check() == z3.sat:
                    md = s_.model()
                    for nm, v in names.items():
                        val = md.eval(v, model_completion=True)
                        try:
                            w[nm] = float(val.as_fraction())
                        except Exception:
                            w[nm] = float(val.approx(20).as_fraction()) if hasattr(val, "approx") else 0.0
                o.refuted.append(dict(entry=list(idx), witness=w, value=None, solver="z3: sat for the negation"))
            else:
                o.undecided.append(dict(entry=list(idx), reason="z3 returned unknown"))
        o.secs = time.time() - t0
        return o

    def finite(self, prop, name, arr):
        """no entry is the undefined value (inf / nan of the float code): every division, root and logarithm on the way to
        this output is defined for all admissible inputs"""
        if self.sym:
            A_ = np.asarray(arr, dtype=object)
            bad = [list(i) for i in (np.ndindex(*A_.shape) if A_.shape else [()]) if S.has_undef(A_[i])]
            o = self._new(prop, name, "finiteness")
            o.n = int(A_.size) if A_.shape else 1
            o.ok = o.n - len(bad)
            for i in bad[:5]:
                o.refuted.append(dict(entry=i, witness=dict(self.pins), value=None, reason="undefined value (%s) reaches the output" % ", ".join(sorted(set(S.UNDEF_REASONS)))))
            return o
        A_ = np.asarray(arr, dtype=float)
        self.numeric[name] = (np.where(np.isfinite(A_), 0.0, 1.0), np.ones(A_.shape), np.where(np.isfinite(A_), A_, 0.0), np.zeros(A_.shape))
        return None

    def note(self, s):
        self.notes.append(s)

    def use_helpers(self, family):
        """component-level proofs use the named helper family as opaque function atoms under their proved contracts"""
        from . import helpers
        if self.sym:
            helpers.activate(getattr(helpers, family + "_stubs")())
            self.assumptions.add("helper contracts of %s are used as opaque atoms (proved separately by the helper.* jobs)" % family)

    def numeric_pi(self, abs_roundoff=1e-13):
        """mesh generators evaluate cos/sin of concrete multiples of pi: pi is the float constant, and float residues
        such as cos(pi/2) = 6e-17 are dropped (coefficients below abs_roundoff times the largest coefficient)"""
        if self.sym:
            sx.SYMBOLIC_PI[0] = False
            self.xp = npshim.make(False)
            self.pi = np.pi
            self.abs_roundoff = abs_roundoff
            self.assumptions.add("pi is the float constant in this job; monomials with coefficients below %g of the largest "
                                 "coefficient of an obligation are float residues of concrete trigonometric values and are dropped" % abs_roundoff)

    def generic_position(self, on=True):
        """exclude ties: distinct terms compare unequal (measure-zero coincidences are a stated exemption)"""
        if self.sym:
            S.GENERIC[0] = on
            if on:
                self.assumptions.add("generic position: exact ties between distinct symbolic values (arg-max ties) are excluded")

    # ------------------------------------------------------------------ path exploration
    def explore(self, fn):
        """sym: run fn() under every decision script, yielding (path conditions, result); native: one natural run"""
        if not self.sym:
            yield [], fn()
            return
        saved = list(self._path_conds)
        saved_pins = dict(self._pins)
        for taken, res in S.explore(fn):
            self._path_conds = saved + [(c, b) for k, c, b in taken]
            self._pins = dict(saved_pins)
            for k, c, b in taken:
                if isinstance(c, S.SymBool) and c.op == '==' and b:
                    pin = _solve_pin(c.val)
                    if pin:
                        self._pins[pin[0]] = pin[1]
            yield self.path_conds, res
        self._path_conds = saved
        self._pins = saved_pins


def _solve_pair(d):
    """d == 0 with d = +-(a - b), a and b variables -> (atom kept, atom tied to it); the one named P.* is the tied one"""
    if len(d.p) != 2:
        return None
    vs = []
    for m, c in d.p.items():
        if m == S.ONE or len(m) != 1 or m[0][1] != 1 or S.A.kind[m[0][0]] != 'var' or abs(c) != 1:
            return None
        vs.append((m[0][0], c))
    if vs[0][1] + vs[1][1] != 0:
        return None
    a, b = vs[0][0], vs[1][0]
    if S.A.names[a].startswith("P."):
        a, b = b, a
    return a, b


def _solve_pin(d):
    """d == 0 with d = c1*var + c0 -> (var name, value)"""
    if len(d.p) > 2:
        return None
    var = None
    c1 = None
    c0 = Fraction(0)
    for m, c in d.p.items():
        if m == S.ONE:
            c0 = c
        elif len(m) == 1 and m[0][1] == 1 and S.A.kind[m[0][0]] == 'var':
            var = m[0][0]
            c1 = c
        else:
            return None
    if var is None:
        return None
    return S.A.names[var], float(-c0 / c1)


def _lift_attr(v, sp):
    if sp.issparse(v):
        return spshim.from_scipy(v)
    if isinstance(v, np.ndarray) and v.dtype.kind in 'fc':
        return S.lift(v.real)
    if isinstance(v, list):
        return [_lift_attr(x, sp) for x in v]
    if isinstance(v, dict):
        return {k: _lift_attr(x, sp) for k, x in v.items()}
    return v


class Handle:
    """a real component usable in both modes; inputs/outputs are plain dicts name -> array"""

    def __init__(self, env, csx, key):
        self.env = env
        self.csx = csx
        self.key = key
        self.comp = csx.comp
        self.in_names = csx.in_names
        self.out_names = csx.out_names
        self.shape = csx.shape
        self.jinfo = csx.jinfo
        self.fq = "%s.%s" % (csx.modname, csx.clsname)
        self._conv = False
        self.first_call = None
        self._in_store = {}
        self.last_frame = []

    def _convert_attrs(self):
        """float work arrays / scipy matrices that the real setup() stored on self (attributes the class's own source
        assigns, found from its AST) -> exact object arrays / the dense matrix class, value for value"""
        if self._conv or not self.env.sym:
            return
        self._conv = True
        import scipy.sparse as sp
        own = sx.self_attrs(type(self.comp))
        for k, v in list(vars(self.comp).items()):
            if k not in own:
                continue
            setattr(self.comp, k, _lift_attr(v, sp))

    def inputs(self, tag="", const=None, **given):
        """dict of all inputs: given ones as they are, ``const`` names at their declared default value, the rest fresh"""
        d = {}
        for n in self.in_names:
            if n in given:
                d[n] = given[n]
            elif const and n in const:
                v = np.broadcast_to(self.csx.default[n], self.shape[n]).copy()
                d[n] = self.env.const(v)
            else:
                d[n] = self.env.var(tag + n, self.shape[n])
        return d

    def _symvec(self, ins):
        v = sx.SymVec()
        for n in self.in_names:
            a = ins[n]
            if isinstance(a, RF) or not isinstance(a, np.ndarray):
                b = np.empty(self.shape[n], dtype=object).view(S.SymArray)
                b[...] = a if isinstance(a, RF) else RF.const(S._tofrac(a))
                a = b
            elif a.dtype != object:
                a = S.lift(a)
            # the component works on the vector's storage, not on our terms; as in OpenMDAO the storage of a live instance
            # persists between calls (a reference the component kept to inputs[...] sees the next point's values)
            a = np.array(a, dtype=object).reshape(self.shape[n])
            store = self._in_store.get(n)
            if store is None or store.shape != a.shape:
                store = a.view(S.SymArray)
                self._in_store[n] = store
            else:
                store[...] = a
            v.init(n, store)
        return v

    def _native_inputs(self, ins):
        """native input arrays of a live instance: as in OpenMDAO the storage persists between calls and is updated in place"""
        st = self.__dict__.setdefault("_in_store_native", {})
        out = {}
        for n in self.in_names:
            a = np.array(np.broadcast_to(np.asarray(ins[n], dtype=float), self.shape[n]))
            if n in st and st[n].shape == a.shape:
                st[n][...] = a
            else:
                st[n] = a
            out[n] = st[n]
        return out

    def out_store(self):
        """a live output storage initialised as OpenMDAO does (declared values); pass it to successive compute calls"""
        if self.env.sym:
            return self.csx.out_container()
        return sx._NativeVec({n: np.array(np.broadcast_to(self.csx.default[n], self.shape[n]), dtype=float)
                              for n in self.out_names})

    def compute(self, ins, havoc=None, method="compute", outs=None):
        self.env.functions.add("%s.%s" % (self.fq, method))
        if self.env.sym:
            self._convert_attrs()
            vec = self._symvec(ins)
            before = {n: vec[n].copy() for n in self.in_names}
            outs = self.csx.compute(vec, outs=outs, havoc=havoc)
            self.last_frame = [(n, idx) for n in self.in_names for idx in np.ndindex(*self.shape[n])
                               if vec[n][idx] is not before[n][idx] and not S.iszero(vec[n][idx] - before[n][idx])]
            if self.first_call is None and not S.PATH.mute:          # a muted evaluation took default branches unrecorded
                self.first_call = (ins, {k: np.array(v, dtype=object) for k, v in outs.items()}, list(S.PATH.outer_taken) + list(S.PATH.taken))
            return {k: np.array(v, dtype=object).view(S.SymArray) for k, v in outs.items()}
        vals = self._native_inputs(ins)
        before = {n: v.copy() for n, v in vals.items()}
        if outs is None:
            outs = sx._NativeVec({n: np.array(np.broadcast_to(self.csx.default[n], self.shape[n]), dtype=float)
                                  for n in self.out_names})
        if havoc:
            for n in self.out_names:
                outs[n][...] = self.env.var("%s<%s>" % (havoc, n), self.shape[n])
        nins = sx._NativeVec(vals)
        if self.comp._discrete_inputs or self.comp._discrete_outputs:
            self.comp.compute(nins, outs, self.comp._discrete_inputs, self.comp._discrete_outputs)
        else:
            self.comp.compute(nins, outs)
        self.last_frame = [(n, idx) for n in self.in_names for idx in np.ndindex(*self.shape[n])
                           if vals[n][idx] != before[n][idx]]
        return {k: np.array(v) for k, v in outs.items()}

    def partials(self, ins, prev=None):
        """run the real compute_partials; returns the Jacobian container (use .dense((of, wrt)))"""
        self.env.functions.add("%s.compute_partials" % self.fq)
        if self.env.sym:
            self._convert_attrs()
            vec = self._symvec(ins)
            before = {n: vec[n].copy() for n in self.in_names}
            jac = prev if prev is not None else self.csx.new_jac()
            out = self.csx.compute_partials(vec, jac)
            # frame: the input vector after compute_partials (what the next linearisation or solve would read)
            self.last_partials_frame = [(n, idx) for n in self.in_names for idx in np.ndindex(*self.shape[n])
                                        if vec[n][idx] is not before[n][idx] and not S.iszero(S.lift(vec[n][idx]) - S.lift(before[n][idx]))]
            return out
        vals = sx._NativeVec(self._native_inputs(ins))
        before = {n: vals[n].copy() for n in self.in_names}
        jac = prev if prev is not None else sx._NativeJac(self.jinfo)
        if self.comp._discrete_inputs:
            self.comp.compute_partials(vals, jac, self.comp._discrete_inputs)
        else:
            self.comp.compute_partials(vals, jac)
        self.last_partials_frame = [(n, idx) for n in self.in_names for idx in np.ndindex(*self.shape[n]) if vals[n][idx] != before[n][idx]]
        return jac

    def true_jac(self, ins, outs, of, wrt):
        """d outs[of] / d ins[wrt] as a dense matrix: engine differentiation (sym) or Richardson central differences /
        complex step of the real compute (native)"""
        if self.env.sym:
            y = np.asarray(outs[of], dtype=object).reshape(-1)
            x = np.asarray(ins[wrt], dtype=object).reshape(-1)
            D = np.empty((len(y), len(x)), dtype=object)
            ids = [S.var_id(v) for v in x]
            for i in range(len(y)):
                yi = y[i]
                deps = S.term_deps(yi) if isinstance(yi, RF) else frozenset()
                for j, a in enumerate(ids):
                    D[i, j] = S.diff(yi, a) if a in deps else RF({})
            return D
        return self._native_fd(ins, of, wrt)

    def _native_fd(self, ins, of, wrt):
        x0 = np.array(np.broadcast_to(np.asarray(ins[wrt], dtype=float), self.shape[wrt]))
        n = x0.size
        m = int(np.prod(self.shape[of])) if self.shape[of] else 1
        D = np.zeros((m, n))

        def f(x):
            d = dict(ins)
            d[wrt] = x.reshape(self.shape[wrt])
            saved = self.env.functions
            o = self.compute(d)
            return np.array(o[of], dtype=float).reshape(-1)
        for j in range(n):
            h = 1e-4 * max(1.0, abs(x0.reshape(-1)[j]))
            e = np.zeros(n)
            e[j] = 1.0
            e = e.reshape(x0.shape)
            d1 = (f(x0 + h * e) - f(x0 - h * e)) / (2 * h)
            d2 = (f(x0 + h / 2 * e) - f(x0 - h / 2 * e)) / h
            D[:, j] = (4 * d2 - d1) / 3
        return D


def _taken_ok(taken, env):
    for key, cond, b in taken:
        if isinstance(cond, S.SymBool):
            v = S.evalf(cond.val, env)
            if abs(v) < 1e-6:
                # close to the boundary: float cancellation (e.g. |a - b| written as sqrt((a - b)^2)) decides nothing
                v = float(S.evalf(cond.val, env, None, MP))
            truth = abs(v) < 1e-12 if cond.op == '==' else (v > 0 if cond.op == '>' else v >= 0)
            if truth != b:
                return False
        elif isinstance(cond, tuple) and cond and cond[0] == 'argmax':
            _, i, flat = cond
            vals = [S.evalf(x, env) if isinstance(x, RF) else float(x) for x in flat]
            ismax = all(vals[i] > v for j, v in enumerate(vals) if j != i)
            if ismax != b:
                return False
        elif isinstance(cond, tuple) and cond and cond[0] == 'alleq':
            if all(abs(S.evalf(x, env)) < 1e-12 for x in cond[1]) != b:
                return False
    return True


def crosscheck(env, jb, kw, seed):
    """translation validation of the shim and the term engine: evaluate the symbolic outputs of the first symbolic
    compute of every component at a random admissible point and compare with the native float execution of the same
    real method (a fresh instance of the same real class) at that point"""
    checked = 0
    worst = 0.0
    skipped = []
    for key, h in env.comps.items():
        if h.first_call is None:
            continue
        ins, outs, taken = h.first_call
        terms = [v for n in h.in_names for v in np.asarray(ins[n], dtype=object).reshape(-1) if isinstance(v, RF)]
        terms += [v for n in h.out_names for v in np.asarray(outs[n], dtype=object).reshape(-1) if isinstance(v, RF)]
        terms += [c.val for k_, c, b_ in taken if isinstance(c, S.SymBool)]
        for k_, c, b_ in taken:
            if isinstance(c, tuple) and c and c[0] == 'argmax':
                terms += [x for x in c[2] if isinstance(x, RF)]
            if isinstance(c, tuple) and c and c[0] == 'alleq':
                terms += list(c[1])
        vars_ = sorted(S.all_vars(terms))
        rng = random.Random(_stable_seed(seed, "xc", key))
        done = False
        for t in range(60):
            ev = {}
            for a in vars_:
                nm = S.A.names[a]
                if nm == "pi":
                    ev[a] = math.pi
                else:
                    lo, hi = env.varnames.get(nm) or env.range_for(nm)
                    ev[a] = lo + (hi - lo) * rng.random()
            try:
                if not _taken_ok(taken, ev):
                    continue
                cache = {}
                vals = {}
                for n in h.in_names:
                    a = np.asarray(ins[n], dtype=object)
                    vals[n] = np.array([float(S.evalf(x, ev, cache, MP)) if isinstance(x, RF) else float(x) for x in a.reshape(-1)],
                                       dtype=float).reshape(h.shape[n])
                symout = {}
                for n in h.out_names:
                    a = np.asarray(outs[n], dtype=object)
                    symout[n] = np.array([float(S.evalf(x, ev, cache, MP)) if isinstance(x, RF) else float(x) for x in a.reshape(-1)],
                                         dtype=float).reshape(h.shape[n])
            except (S.Undefined, OverflowError, ZeroDivisionError, ValueError):
                continue
            c2 = sx.CompSX(h.factory(), setup_model=h.setup_model)
            nat = c2.native_compute(vals)
            for n in h.out_names:
                a = np.asarray(nat[n], dtype=float)
                if not np.all(np.isfinite(a)):
                    raise RuntimeError("native output %s not finite at the cross-check point" % n)
                # entries that are exactly 0 symbolically come out as cancellation noise natively: the floor scales with the
                # largest entry of the output
                floor = 1e-6 * max(1e-4, float(np.max(np.abs(a)))) if a.size else 1e-10
                err = float(np.max(np.abs(a - symout[n]) / (floor + np.abs(a) + np.abs(symout[n])))) if a.size else 0.0
                worst = max(worst, err)
                if err > 1e-7:
                    k = int(np.argmax(np.abs(a - symout[n]) / (floor + np.abs(a) + np.abs(symout[n]))))
                    return dict(ok=False, error="shim cross-check mismatch on %s.%s: rel err %.3g (entry %d: native %r, symbolic %r)" % (
                        h.fq, n, err, k, float(a.reshape(-1)[k]), float(np.asarray(symout[n]).reshape(-1)[k])))
            checked += 1
            done = True
            break
        if not done:
            skipped.append(h.fq)
    return dict(ok=True, checked=checked, worst_rel_err=worst, skipped=skipped)


# ----------------------------------------------------------------------------------------------------------------
# implicit components

class _Vec(dict):
    pass


def _h_residual(self, ins, outs):
    """run the real apply_nonlinear; returns {name: residual array}"""
    self.env.functions.add("%s.apply_nonlinear" % self.fq)
    if self.env.sym:
        self._convert_attrs()
        vec = self._symvec(ins)
        ov = sx.SymVec()
        for n in self.out_names:
            ov.init(n, np.array(S.lift(np.asarray(outs[n], dtype=object)), dtype=object).reshape(self.shape[n]).view(S.SymArray))
        res = self.csx.apply_nonlinear(vec, ov)
        return dict(res)
    vals = sx._NativeVec({n: np.array(np.broadcast_to(np.asarray(ins[n], dtype=float), self.shape[n])) for n in self.in_names})
    ov = sx._NativeVec({n: np.array(np.broadcast_to(np.asarray(outs[n], dtype=float), self.shape[n])) for n in self.out_names})
    res = sx._NativeVec({n: np.zeros(self.shape[n]) for n in self.out_names})
    self.comp.apply_nonlinear(vals, ov, res)
    return dict(res)


def _h_linearize(self, ins, outs, prev=None):
    self.env.functions.add("%s.linearize" % self.fq)
    if self.env.sym:
        self._convert_attrs()
        vec = self._symvec(ins)
        ov = sx.SymVec()
        for n in self.out_names:
            ov.init(n, np.array(S.lift(np.asarray(outs[n], dtype=object)), dtype=object).reshape(self.shape[n]).view(S.SymArray))
        return self.csx.linearize(vec, ov, prev)
    vals = sx._NativeVec({n: np.array(np.broadcast_to(np.asarray(ins[n], dtype=float), self.shape[n])) for n in self.in_names})
    ov = sx._NativeVec({n: np.array(np.broadcast_to(np.asarray(outs[n], dtype=float), self.shape[n])) for n in self.out_names})
    jac = prev if prev is not None else sx._NativeJac(self.jinfo)
    self.comp.linearize(vals, ov, jac)
    return jac


def _h_solve_nonlinear(self, ins):
    """run the real solve_nonlinear; sym: outputs are the fresh unknowns of the solve contract stub"""
    self.env.functions.add("%s.solve_nonlinear" % self.fq)
    if self.env.sym:
        self._convert_attrs()
        vec = self._symvec(ins)
        ov = self.csx.out_container()
        vec.read_only = True
        try:
            with sx.patched():
                self.comp.solve_nonlinear(vec, ov)
        finally:
            vec.read_only = False
        return dict(ov)
    vals = sx._NativeVec({n: np.array(np.broadcast_to(np.asarray(ins[n], dtype=float), self.shape[n])) for n in self.in_names})
    ov = sx._NativeVec({n: np.array(np.broadcast_to(self.csx.default[n], self.shape[n]), dtype=float) for n in self.out_names})
    self.comp.solve_nonlinear(vals, ov)
    return dict(ov)


def _h_solve_linear(self, d_outputs, d_residuals, mode):
    """run the real solve_linear on the given d_outputs / d_residuals dicts (the one being solved for is overwritten)"""
    self.env.functions.add("%s.solve_linear" % self.fq)
    if self.env.sym:
        do = sx.SymVec()
        dr = sx.SymVec()
        for n in self.out_names:
            do.init(n, np.array(S.lift(np.asarray(d_outputs[n], dtype=object)), dtype=object).reshape(self.shape[n]).view(S.SymArray))
            dr.init(n, np.array(S.lift(np.asarray(d_residuals[n], dtype=object)), dtype=object).reshape(self.shape[n]).view(S.SymArray))
        with sx.patched():
            self.comp.solve_linear(do, dr, mode)
        return dict(do), dict(dr)
    do = sx._NativeVec({n: np.array(np.broadcast_to(np.asarray(d_outputs[n], dtype=float), self.shape[n])) for n in self.out_names})
    dr = sx._NativeVec({n: np.array(np.broadcast_to(np.asarray(d_residuals[n], dtype=float), self.shape[n])) for n in self.out_names})
    self.comp.solve_linear(do, dr, mode)
    return dict(do), dict(dr)


def _h_true_jac_res(self, ins, outs, res, of, wrt):
    if self.env.sym:
        src = ins if wrt in self.in_names else outs
        return self.env.jac_of(res[of], src[wrt])
    x0 = np.array(np.broadcast_to(np.asarray((ins if wrt in self.in_names else outs)[wrt], dtype=float), self.shape[wrt]))

    def f(x):
        i2, o2 = dict(ins), dict(outs)
        (i2 if wrt in self.in_names else o2)[wrt] = x.reshape(self.shape[wrt])
        return self.residual(i2, o2)[of]
    return self.env.fd_jac(f, x0)


Handle.residual = _h_residual
Handle.linearize = _h_linearize
Handle.solve_nonlinear = _h_solve_nonlinear
Handle.solve_linear = _h_solve_linear
Handle.true_jac_res = _h_true_jac_res


def _h_jacvec(self, ins, d_inputs, d_outputs, mode):
    """run the real compute_jacvec_product on copies of d_inputs / d_outputs (the method accumulates with +=)"""
    self.env.functions.add("%s.compute_jacvec_product" % self.fq)
    if self.env.sym:
        vec = self._symvec(ins)
        di = sx.SymVec()
        do = sx.SymVec()
        for n in self.in_names:
            di.init(n, np.array(S.lift(np.asarray(d_inputs[n], dtype=object)), dtype=object).reshape(self.shape[n]).view(S.SymArray))
        for n in self.out_names:
            do.init(n, np.array(S.lift(np.asarray(d_outputs[n], dtype=object)), dtype=object).reshape(self.shape[n]).view(S.SymArray))
        with sx.patched():
            self.comp.compute_jacvec_product(vec, di, do, mode)
        return dict(di), dict(do)
    vec = sx._NativeVec({n: np.array(np.broadcast_to(np.asarray(ins[n], dtype=float), self.shape[n])) for n in self.in_names})
    di = sx._NativeVec({n: np.array(np.broadcast_to(np.asarray(d_inputs[n], dtype=float), self.shape[n])) for n in self.in_names})
    do = sx._NativeVec({n: np.array(np.broadcast_to(np.asarray(d_outputs[n], dtype=float), self.shape[n])) for n in self.out_names})
    self.comp.compute_jacvec_product(vec, di, do, mode)
    return dict(di), dict(do)


Handle.jacvec = _h_jacvec
