"""Symbolic execution of a real OpenMDAO *group* of the repository (AeroPoint, Geometry, SpatialBeamAlone ...).

The real group is instantiated and set up by real OpenMDAO.  Its components are then executed one by one in the
framework's execution order; each component input takes the value the framework would transfer to it: the output of the
source named by OpenMDAO's real connection table (`_conn_global_abs_in2out`), converted with the real unit conversion
factor, or -- for unconnected inputs (sources owned by the automatic IndepVarComp) -- the value given by the caller.
This is the "caller is checked against the callee's contract" rule at the level at which OpenMDAO composes code: what a
component receives is exactly what the real wiring delivers.

Implicit components are executed through their real solve_nonlinear under the factorisation stubs of spshim: the
solution is a vector of fresh unknowns x with the recorded system A x = b.  A *solution hint* (a candidate phi and a
multiplier M) may be supplied for a solve; the engine then proves the residual identity  A phi - b == M (A0 x0 - b0)
against an earlier recorded solve and uses phi (sound when A is non-singular: the solution is unique) -- this is how
relational properties (scaling laws, mirror images, half/full span) pass through the linear solves.
"""
import numpy as np
import openmdao.api as om
from openmdao.utils.units import unit_conversion

from . import term as S
from . import sx
from . import spshim
from .term import RF, OutsideFragment


class GroupSX:
    def __init__(self, env, build, key="g"):
        self.env = env
        p = om.Problem(reports=False)
        build(p.model)
        p.setup(force_alloc_complex=True)
        p.final_setup()
        self.prob = p
        m = p.model
        self.model = m
        self.conn = dict(m._conn_global_abs_in2out)
        self.comps = [s for s in m.system_iter(include_self=False, recurse=True) if isinstance(s, (om.ExplicitComponent, om.ImplicitComponent, om.IndepVarComp))]
        self.meta_in = m._var_allprocs_abs2meta["input"]
        self.meta_out = m._var_allprocs_abs2meta["output"]
        r = m._resolver
        self.abs2prom_in = {a: r.abs2prom(a, "input") for a in self.meta_in}
        self.abs2prom_out = {a: r.abs2prom(a, "output") for a in self.meta_out}
        self.handles = {}
        self.solves = []          # recorded solves of the last run: dict(comp, A, b, x, trans)
        self.key = key

    # ------------------------------------------------------------------
    def prom_inputs(self):
        """the group's free inputs {name: [absolute names]}: promoted names of the outputs of explicit IndepVarComps, and
        promoted names of inputs fed by the automatic IndepVarComp"""
        out = {}
        for comp in self.comps:
            if isinstance(comp, om.IndepVarComp) and not comp.pathname.startswith("_auto_ivc") and "." not in comp.pathname:
                # only IndepVarComps at the top level of the model are the user's inputs; IndepVarComps inside the
                # repository's groups (e.g. the fixed alpha_pg = beta_pg = 0 of the compressible solver) are constants
                for n in comp._var_rel_names["output"]:
                    a = comp.pathname + "." + n
                    out.setdefault(self.abs2prom_out[a], []).append(a)
        for a, src in self.conn.items():
            if src.startswith("_auto_ivc."):
                out.setdefault(self.abs2prom_in[a], []).append(a)
        return out

    def free_shape(self, name):
        a = self.prom_inputs()[name][0]
        return tuple((self.meta_out.get(a) or self.meta_in.get(a))["shape"])

    def default_of(self, name):
        a = self.prom_inputs()[name][0]
        return np.array(self.prob.get_val(a))

    def _is_ivc(self, src_abs):
        comp_path = src_abs.rsplit(".", 1)[0]
        try:
            sysm = self.model._get_subsystem(comp_path)
        except Exception:
            return False
        return isinstance(sysm, om.IndepVarComp)

    def _handle(self, comp):
        from .core import Handle
        h = self.handles.get(comp.pathname)
        if h is None:
            csx = _csx_from_live(comp)
            h = Handle(self.env, csx, self.key + ":" + comp.pathname)
            h.factory = None
            h.setup_model = None
            self.handles[comp.pathname] = h
        return h

    # ------------------------------------------------------------------
    def run(self, given, tag="", hints=None, stop_after=None):
        """execute the group. given: {promoted input name: array}. Unspecified free inputs become fresh variables named
        <tag><promoted name>.  Returns {absolute output name: array}; use .get(outs, promoted_name)."""
        env = self.env
        if not env.sym:
            return self._run_native(given)
        vals = {}              # abs output name -> array
        free = {}
        self.solves = []
        hints = dict(hints or {})
        for comp in self.comps:
            path = comp.pathname
            if path.startswith("_auto_ivc"):
                continue
            if isinstance(comp, om.IndepVarComp):
                for n in comp._var_rel_names["output"]:
                    a = path + "." + n
                    prom = self.abs2prom_out[a]
                    if "." in path and prom not in given:
                        vals[a] = S.lift(np.array(self.prob.get_val(a)))          # internal constant of the group
                    else:
                        vals[a] = self._given(given, prom, a, tag, free, self.meta_out[a])
                continue
            h = self._handle(comp)
            ins = {}
            for n in h.in_names:
                a = path + "." + n
                src = self.conn.get(a)
                if src is None or src.startswith("_auto_ivc."):
                    prom = self.abs2prom_in[a]
                    v = self._given(given, prom, a, tag, free, self.meta_in[a])
                    v = self._convert_given(v, prom, a)
                else:
                    v = vals[src]
                    mi = self.meta_in[a]
                    mo = self.meta_out[src]
                    if mi.get("src_indices") is not None or mi.get("has_src_indices"):
                        raise OutsideFragment("src_indices on %s" % a)
                    if mi.get("units") and mo.get("units") and mi["units"] != mo["units"]:
                        f, off = unit_conversion(mo["units"], mi["units"])
                        if off != 0.0:
                            raise OutsideFragment("unit conversion with offset on %s" % a)
                        v = v * _unit_factor(mo["units"], mi["units"], f, env)
                ins[n] = np.asarray(v, dtype=object).reshape(h.shape[n]) if h.shape[n] else v
            if _is_spline(comp):
                outs = _spline_apply(comp, h, ins, env)
            elif h.csx.implicit:
                outs = self._solve(h, comp, ins, hints)
            else:
                outs = h.compute(ins)
            for n in h.out_names:
                vals[path + "." + n] = outs[n]
            if stop_after and path.endswith(stop_after):
                break
        self.last_free = free
        return vals

    def _given(self, given, prom, a, tag, free, meta):
        if prom in given:
            v = given[prom]
        elif prom in free:
            v = free[prom]
        else:
            v = self.env.var(tag + prom, tuple(meta["shape"]))
            free[prom] = v
        return v

    def _convert_given(self, v, prom, a):
        """values handed in by the caller are in the units of the promoted input as OpenMDAO reports them for the
        automatic IndepVarComp source (the units of the first target); convert for targets declared in other units"""
        src = self.conn.get(a)
        if src is None:
            return v
        mo = self.meta_out.get(src)
        mi = self.meta_in[a]
        if mo is not None and mi.get("units") and mo.get("units") and mi["units"] != mo["units"]:
            f, off = unit_conversion(mo["units"], mi["units"])
            if off != 0.0:
                raise OutsideFragment("unit conversion with offset on %s" % a)
            return v * _unit_factor(mo["units"], mi["units"], f, self.env)
        return v

    def _solve(self, h, comp, ins, hints):
        del spshim.SOLVES[:]
        outs = h.solve_nonlinear(ins)
        if len(spshim.SOLVES) != 1:
            raise OutsideFragment("%s.solve_nonlinear performed %d solves" % (comp.pathname, len(spshim.SOLVES)))
        rec = dict(spshim.SOLVES[0])
        rec["comp"] = comp.pathname
        rec["out"] = h.out_names[0]
        hint = hints.get(comp.pathname.rsplit(".", 1)[-1]) or hints.get(comp.pathname)
        if hint is not None:
            phi = np.asarray(hint(rec), dtype=object).reshape(-1)
            A = rec["A"].T if rec["trans"] else rec["A"]
            rec["phi"] = phi
            rec["residual_at_phi"] = spshim._mm(A, phi) - np.asarray(rec["b"], dtype=object).reshape(-1)
            outs = {h.out_names[0]: phi.reshape(h.shape[h.out_names[0]]).view(S.SymArray)}
        self.solves.append(rec)
        return outs

    def _run_native(self, given):
        p = self.prob
        for prom, v in given.items():
            try:
                p.set_val(prom, np.asarray(v, dtype=float))
            except Exception:
                p.set_val(prom, np.asarray(v, dtype=float).reshape(p.get_val(prom).shape))
        for prom in self.prom_inputs():
            if prom not in given:
                shape = p.get_val(prom).shape
                p.set_val(prom, np.asarray(self.env.var(prom, shape)).reshape(shape))
        p.run_model()
        vals = {}
        for a in self.meta_out:
            if not a.startswith("_auto_ivc."):
                vals[a] = np.array(p.get_val(a))
        return vals

    def get(self, vals, prom):
        """value of an output by promoted (or absolute) name"""
        if prom in vals:
            return vals[prom]
        for a, pr in self.abs2prom_out.items():
            if pr == prom and a in vals:
                return vals[a]
        raise KeyError(prom)

    def connection_report(self):
        return {a: s for a, s in self.conn.items() if not s.startswith("_auto_ivc.")}


def _unit_factor(src_units, tgt_units, f, env):
    if (src_units, tgt_units) == ("deg", "rad") and env.sym:
        return env.pi / 180
    if (src_units, tgt_units) == ("rad", "deg") and env.sym:
        return 180 / env.pi
    return f


def _csx_from_live(comp):
    """a CompSX view of a component that lives inside an already set-up model"""
    c = sx.CompSX.__new__(sx.CompSX)
    c.prob = None
    c.comp = comp
    c.pre = comp.pathname + "."
    c.in_names = list(comp._var_rel_names['input'])
    c.out_names = list(comp._var_rel_names['output'])
    meta = comp._var_rel2meta
    c.shape = {n: tuple(meta[n]['shape']) for n in c.in_names + c.out_names}
    c.default = {n: np.array(meta[n]['val'], dtype=float) for n in c.in_names + c.out_names}
    c.units = {n: meta[n].get('units') for n in c.in_names + c.out_names}
    c.implicit = isinstance(comp, om.ImplicitComponent)
    c.jinfo = {}
    n = len(c.pre)
    for (of, wrt), inf in comp._subjacs_info.items():
        of, wrt = of[n:], wrt[n:]
        if not c.implicit and wrt in c.out_names:
            continue
        c.jinfo[of, wrt] = dict(rows=inf.get('rows'), cols=inf.get('cols'), shape=tuple(inf['shape']), val=inf.get('val'),
                                method=inf.get('method'), dependent=inf.get('dependent', True), diagonal=inf.get('diagonal'))
    c.modname = type(comp).__module__
    c.clsname = type(comp).__name__
    return c


def _is_spline(comp):
    return type(comp).__name__ in ("SplineComp", "BsplinesComp") and type(comp).__module__.startswith("openmdao")


def _spline_apply(comp, h, ins, env):
    """OpenMDAO SplineComp is external: its documented contract -- the output is a fixed linear map of the control
    points -- is assumed; the matrix is read off by evaluating the real component natively on unit vectors"""
    env.assumptions.add("OpenMDAO SplineComp: output is a fixed linear map of the control points (external contract; "
                        "matrix obtained from the real component on unit vectors)")
    outs = {}
    if not hasattr(comp, "_oasverif_mats"):
        mats = {}
        for on in h.out_names:
            for inn in h.in_names:
                m_in = int(np.prod(h.shape[inn]))
                cols = []
                base = None
                for k in range(m_in + 1):
                    vec = sx._NativeVec({n: np.zeros(h.shape[n]) for n in h.in_names})
                    if k < m_in:
                        vec[inn].reshape(-1)[k] = 1.0
                    o = sx._NativeVec({n: np.zeros(h.shape[n]) for n in h.out_names})
                    comp.compute(vec, o)
                    if k == m_in:
                        base = np.array(o[on]).reshape(-1)
                    else:
                        cols.append(np.array(o[on]).reshape(-1))
                M = np.array(cols).T - base.reshape(-1, 1)
                mats[on, inn] = (M, base)
        comp._oasverif_mats = mats
    for on in h.out_names:
        tot = None
        for inn in h.in_names:
            M, base = comp._oasverif_mats[on, inn]
            x = np.asarray(ins[inn], dtype=object).reshape(-1)
            y = spshim._mm(S.lift(M), S.lift(x)) if env.sym else M.dot(np.asarray(x, dtype=float))
            tot = y if tot is None else tot + y
        outs[on] = np.asarray(tot, dtype=object).reshape(h.shape[on]).view(S.SymArray) if env.sym else np.asarray(tot).reshape(h.shape[on])
    return outs


def aero_model(surfaces, point="ap", **opts):
    """builder for the documented aerodynamic set-up: an IndepVarComp with the flight condition and the meshes, one
    AeroPoint, meshes connected to the geometry and to the states (as in the repository's examples)"""
    from openaerostruct.aerodynamics.aero_groups import AeroPoint

    def build(model):
        ivc = om.IndepVarComp()
        ivc.add_output("v", val=1.0, units="m/s")
        ivc.add_output("alpha", val=1.0, units="deg")
        ivc.add_output("beta", val=0.0, units="deg")
        ivc.add_output("Mach_number", val=0.5)
        ivc.add_output("re", val=1.0e6, units="1/m")
        ivc.add_output("rho", val=1.0, units="kg/m**3")
        ivc.add_output("cg", val=np.zeros(3), units="m")
        if opts.get("rotational"):
            ivc.add_output("omega", val=np.zeros(3), units="rad/s")
        if any(s.get("groundplane") for s in surfaces):
            ivc.add_output("height_agl", val=8000.0, units="m")
        if opts.get("user_specified_Sref"):
            ivc.add_output("S_ref_total", val=1.0, units="m**2")
        for s in surfaces:
            ivc.add_output(s["name"] + "_def_mesh", val=s["mesh"], units="m")
            ivc.add_output(s["name"] + "_t_over_c", val=np.full(s["mesh"].shape[1] - 1, 0.12))
        model.add_subsystem("flight", ivc, promotes=["*"])
        prom = ["v", "alpha", "beta", "Mach_number", "re", "rho", "cg"]
        if opts.get("rotational"):
            prom.append("omega")
        if any(s.get("groundplane") for s in surfaces):
            prom.append("height_agl")
        if opts.get("user_specified_Sref"):
            prom.append("S_ref_total")
        model.add_subsystem(point, AeroPoint(surfaces=surfaces, **opts), promotes_inputs=prom)
        for s in surfaces:
            n = s["name"]
            model.connect(n + "_def_mesh", point + "." + n + ".def_mesh")
            model.connect(n + "_def_mesh", point + ".aero_states." + n + "_def_mesh")
            model.connect(n + "_t_over_c", point + "." + n + "_perf.t_over_c")
    return build


def struct_model(surface):
    """builder for the structural chain of SpatialBeamAlone without the design-variable parametrisation: an IndepVarComp
    with mesh, section properties and applied loads; SpatialBeamSetup, SpatialBeamStates and SpatialBeamFunctionals
    promoted exactly as SpatialBeamAlone promotes them (tube model)"""
    from openaerostruct.structures.spatial_beam_setup import SpatialBeamSetup
    from openaerostruct.structures.spatial_beam_states import SpatialBeamStates
    from openaerostruct.structures.spatial_beam_functionals import SpatialBeamFunctionals

    def build(model):
        ny = surface["mesh"].shape[1]
        ivc = om.IndepVarComp()
        ivc.add_output("mesh", val=surface["mesh"], units="m")
        for n, u in (("A", "m**2"), ("Iy", "m**4"), ("Iz", "m**4"), ("J", "m**4"), ("radius", "m"), ("thickness", "m")):
            ivc.add_output(n, val=np.ones(ny - 1), units=u)
        ivc.add_output("loads", val=np.ones((ny, 6)), units="N")
        promotes = []
        if surface["struct_weight_relief"]:
            promotes += ["nodes", "element_mass", "load_factor"]
            ivc.add_output("load_factor", val=1.0)
        model.add_subsystem("inputs", ivc, promotes=["*"])
        model.add_subsystem("struct_setup", SpatialBeamSetup(surface=surface), promotes_inputs=["mesh", "A", "Iy", "Iz", "J"],
                            promotes_outputs=["nodes", "local_stiff_transformed", "structural_mass", "cg_location", "element_mass"])
        model.add_subsystem("struct_states", SpatialBeamStates(surface=surface),
                            promotes_inputs=["local_stiff_transformed", "forces", "loads"] + sorted(set(promotes)), promotes_outputs=["disp"])
        model.add_subsystem("struct_funcs", SpatialBeamFunctionals(surface=surface), promotes_inputs=["thickness", "radius", "nodes", "disp"],
                            promotes_outputs=["thickness_intersects", "vonmises", "failure"])
    return build
