"""Exact real-field terms used as elements of numpy object arrays.

A value (class RF) is a sparse polynomial over Q in *atoms*.  A monomial is a sorted tuple of (atom id, exponent)
pairs with non-zero integer exponents (negative exponents are allowed: the inverse of a single atom is exact).

Atom kinds and the equation that defines them on the admissible set:

  var            free real variable
  rad (k, P)     r >= 0 and r**k == P                     rewrite r**k -> P
  cos (u)        paired with sin(u)
  sin (u)        S**2 + C**2 == 1                         rewrite S**2 -> 1 - C**2
  exp (u), log (u)   transcendental; exp(0)=1, log(1)=0; only differentiation rules
  atan (u)       only differentiation rule; sin/cos of it are rewritten algebraically in trig()
  inv (Q)        1/Q for a multi-term polynomial Q (no eager common denominators); cleared only in the zero test
  ind (c)        0/1 value of a comparison, locally constant     rewrite i**2 -> i
  fun / dfun     opaque helper result under contract and its partial derivatives

The zero test (iszero) is sound: every rewrite is a valid equation wherever all atoms are defined, so a normal form
of 0 proves the identity on the whole admissible set.  A non-zero normal form is *not* a refutation by itself.
"""
from fractions import Fraction
import numbers
import math
import numpy as np


class Atoms:
    def __init__(self):
        self.names = []
        self.kind = []
        self.info = []
        self.by_key = {}
        self.deps = []

    def new(self, name, kind, info=None, key=None):
        if key is not None and key in self.by_key:
            return self.by_key[key]
        i = len(self.names)
        self.names.append(name)
        self.kind.append(kind)
        self.info.append(info)
        self.deps.append(None)
        if key is not None:
            self.by_key[key] = i
        return i


A = Atoms()
_dcache = {}
DEFINED = []          # definedness conditions generated during a run: (kind, RF) with kind in 'nonzero','nonneg','pos'


def reset():
    """fresh atom table (one per job)"""
    global A
    A = Atoms()
    _dcache.clear()
    UNDEF_ON[0] = False
    del UNDEF_REASONS[:]
    ABS_ATOMS.clear()
    del ABS_EVENTS[:]
    del DEFINED[:]
    del TINY_SEEN[:]
    PATH.start([])
    PATH.exploring = False
    PATH.whole = False
    PATH.mute = False
    PATH.outer_script = []
    PATH.outer_taken = []
    EAGER_MASKS[0] = False
    del PATH.unexplored[:]
    GENERIC[0] = False


TINY_GUARD = 1e-40
TINY_SEEN = []
ONE = ()
F0 = Fraction(0)
F1 = Fraction(1)


def mono_mul(a, b):
    if not a:
        return b
    if not b:
        return a
    out = []
    i = j = 0
    la, lb = len(a), len(b)
    while i < la and j < lb:
        x, y = a[i], b[j]
        if x[0] == y[0]:
            e = x[1] + y[1]
            if e:
                out.append((x[0], e))
            i += 1
            j += 1
        elif x[0] < y[0]:
            out.append(x)
            i += 1
        else:
            out.append(y)
            j += 1
    if i < la:
        out.extend(a[i:])
    if j < lb:
        out.extend(b[j:])
    return tuple(out)


def p_const(c):
    c = Fraction(c)
    return {ONE: c} if c else {}


def _acc(out, m, c):
    v = out.get(m)
    if v is None:
        if c:
            out[m] = c
    else:
        v = v + c
        if v:
            out[m] = v
        else:
            del out[m]


def p_add(a, b, sb=1):
    if not b:
        return a
    if not a and sb == 1:
        return b
    out = dict(a)
    if sb == 1:
        for m, c in b.items():
            _acc(out, m, c)
    else:
        for m, c in b.items():
            _acc(out, m, sb * c)
    return out


def p_scale(a, c):
    return {m: v * c for m, v in a.items()} if c else {}


def p_mul_raw(a, b):
    out = {}
    if len(a) > len(b):
        a, b = b, a
    for ma, ca in a.items():
        for mb, cb in b.items():
            _acc(out, mono_mul(ma, mb), ca * cb)
    return out


def _rule(a, e):
    k = A.kind[a]
    if k == 'rad':
        kk, P = A.info[a]
        if e >= kk:
            return kk, P
    elif k == 'sin':
        if e >= 2:
            return 2, {ONE: F1, ((A.info[a], 2),): Fraction(-1)}
    elif k == 'ind':
        if e >= 2:
            return e - 1, {ONE: F1}
    return None


_REDUCIBLE = ('rad', 'sin', 'ind')


def _needs_reduce(p):
    kind = A.kind
    for m in p:
        for a, e in m:
            if e >= 2 and kind[a] in _REDUCIBLE:
                return True
    return False


def p_reduce(p):
    if not _needs_reduce(p):
        return p
    todo = p
    out = {}
    while todo:
        nxt = {}
        for m, c in todo.items():
            for idx, (a, e) in enumerate(m):
                r = _rule(a, e) if e >= 2 else None
                if r is not None:
                    k, repl = r
                    rest = m[:idx] + (((a, e - k),) if e - k else ()) + m[idx + 1:]
                    for mm, cc in p_mul_raw({rest: c}, repl).items():
                        _acc(nxt, mm, cc)
                    break
            else:
                _acc(out, m, c)
        todo = nxt
    return out


def p_mul(a, b):
    return p_reduce(p_mul_raw(a, b))


def p_pow(a, n):
    r = p_const(1)
    base = a
    while n:
        if n & 1:
            r = p_mul(r, base)
        n >>= 1
        if n:
            base = p_mul(base, base)
    return r


def p_key(p):
    return tuple(sorted(p.items()))


def p_normalize(p):
    lead = max(p)
    c = p[lead]
    if c == 1:
        return c, p
    return c, {m: v / c for m, v in p.items()}


def mono_gcd(p):
    it = iter(p)
    g = dict(next(it))
    for m in it:
        d = dict(m)
        for a in list(g):
            e = min(g[a], d.get(a, 0))
            if e:
                g[a] = e
            else:
                del g[a]
        for a, e in d.items():
            if a not in g and e < 0:
                g[a] = e
    return tuple(sorted((a, e) for a, e in g.items() if e))


def _tofrac(o):
    if isinstance(o, Fraction):
        return o
    if isinstance(o, (bool, np.bool_)):
        return Fraction(int(o))
    if isinstance(o, numbers.Integral):
        return Fraction(int(o))
    if isinstance(o, (float, np.floating)):
        f = float(o)
        if f != f or f in (math.inf, -math.inf):
            raise OutsideFragment("non-finite float constant %r" % f)
        if f != 0.0 and abs(f) < TINY_GUARD:
            TINY_SEEN.append(f)
            return Fraction(0)     # denormal-range guards such as "+ 1e-50" are treated as 0 (stated assumption)
        fr = Fraction(repr(f))
        if fr.denominator > 10 ** 6:
            # a float that is within 1e-12 (relative) of a rational with a small denominator denotes that rational:
            # absorbs the round-off of concrete float arithmetic done by real numpy before the engine sees the value
            cand = Fraction(f).limit_denominator(10 ** 6)
            if abs(cand - fr) * 10 ** 12 <= abs(fr):
                fr = cand
        return fr
    if isinstance(o, (complex, np.complexfloating)):
        if o.imag == 0:
            return Fraction(repr(float(o.real)))
        raise OutsideFragment("complex constant")
    return None


UNDEF_ON = [False]


def undef(reason="division by an exact zero"):
    """the undefined value (inf/nan of the float code): absorbing under every operation"""
    UNDEF_ON[0] = True
    UNDEF_REASONS.append(reason)
    i = A.new("UNDEFINED", 'undef', None, key=('undef',))
    return RF({((i, 1),): F1})


UNDEF_REASONS = []
ABS_ATOMS = set()        # radical atoms created by abs(): |x| is not complex-analytic


def has_undef(x):
    if not UNDEF_ON[0] or not isinstance(x, RF):
        return False
    k = A.by_key.get(('undef',))
    if k is None:
        return False
    for m in x.p:
        for a, e in m:
            if a == k:
                return True
    return False


class OutsideFragment(Exception):
    """the real code used an operation the symbolic semantics does not cover (checker exit 3, never a violation)"""


class RF:
    __slots__ = ("p",)

    def __init__(self, p):
        self.p = p

    @staticmethod
    def const(c):
        return RF(p_const(c))

    @staticmethod
    def var(name):
        i = A.new(name, 'var', key=('var', name))
        return RF({((i, 1),): F1})

    @staticmethod
    def atom(i, e=1):
        return RF({((i, e),): F1})

    def is_const(self):
        p = self.p
        return not p or (len(p) == 1 and ONE in p)

    def cval(self):
        return self.p.get(ONE, F0)

    def _coerce(self, o):
        if isinstance(o, RF):
            return o
        f = _tofrac(o)
        if f is None:
            return NotImplemented
        return RF({ONE: f} if f else {})

    def __add__(self, o):
        o = self._coerce(o)
        if o is NotImplemented:
            return o
        if UNDEF_ON[0] and (has_undef(self) or has_undef(o)):
            return undef("propagated")
        return RF(p_add(self.p, o.p))

    __radd__ = __add__

    def __sub__(self, o):
        o = self._coerce(o)
        if o is NotImplemented:
            return o
        if UNDEF_ON[0] and (has_undef(self) or has_undef(o)):
            return undef("propagated")
        return RF(p_add(self.p, o.p, -1))

    def __rsub__(self, o):
        o = self._coerce(o)
        if o is NotImplemented:
            return o
        if UNDEF_ON[0] and (has_undef(self) or has_undef(o)):
            return undef("propagated")
        return RF(p_add(o.p, self.p, -1))

    def __neg__(self):
        return RF(p_scale(self.p, -1))

    def __pos__(self):
        return self

    def __mul__(self, o):
        o = self._coerce(o)
        if o is NotImplemented:
            return o
        a, b = self.p, o.p
        if UNDEF_ON[0] and (has_undef(self) or has_undef(o)):
            return undef("propagated")           # absorbing: 0 * inf is nan in the float code
        if not a or not b:
            return RF({})
        if len(b) == 1 and ONE in b:
            c = b[ONE]
            return self if c == 1 else RF({m: v * c for m, v in a.items()})
        if len(a) == 1 and ONE in a:
            c = a[ONE]
            return o if c == 1 else RF({m: v * c for m, v in b.items()})
        return RF(p_mul(a, b))

    __rmul__ = __mul__

    def inv(self):
        if not self.p:
            return undef("1/0")
        if UNDEF_ON[0] and has_undef(self):
            return undef("propagated")
        if self.is_const():
            return RF({ONE: 1 / self.cval()})
        if has_defs(self.p):
            return RF(expand_defs(self.p)).inv()
        g = mono_gcd(self.p)
        ginv = tuple((a, -e) for a, e in g)
        q = p_mul_raw(self.p, {ginv: F1}) if g else self.p
        c, q = p_normalize(q)
        res = {ginv: 1 / c}
        if not (len(q) == 1 and ONE in q):
            k = ('inv', p_key(q))
            new = k not in A.by_key
            i = A.new("inv#%d" % len(A.names), 'inv', q, key=k)
            if new:
                DEFINED.append(('nonzero', RF(q)))
            res = p_mul_raw(res, {((i, 1),): F1})
        elif g:
            DEFINED.append(('nonzero', RF({g: F1})))
        return RF(p_reduce(res))

    def __truediv__(self, o):
        o = self._coerce(o)
        if o is NotImplemented:
            return o
        if UNDEF_ON[0] and (has_undef(self) or has_undef(o)):
            return undef("propagated")
        if o.is_const():
            c = o.cval()
            if not c:
                return undef("x/0")
            return RF({m: v / c for m, v in self.p.items()})
        return self * o.inv()

    def __rtruediv__(self, o):
        o = self._coerce(o)
        return o if o is NotImplemented else o * self.inv()

    def __pow__(self, n):
        if isinstance(n, RF):
            if n.is_const():
                n = n.cval()
            else:
                # x**y = exp(y log x)
                return transc('exp', n * transc('log', self))
        n = _tofrac(n)
        if n is None:
            return NotImplemented
        if n.denominator == 1:
            n = int(n)
            if n == 0:
                return RF.const(1)
            if n == 1:
                return self
            k = len(self.p)
            if (k >= POW_ABSTRACT[0] and abs(n) >= 3) or (k >= POW_ABSTRACT[1] and abs(n) >= 2):
                # let-abstraction: a large base raised to a power becomes a definition atom (expanded only if the
                # zero test needs it)
                return RF.atom(def_atom(self), n) if n > 0 else RF.atom(def_atom(self)).inv() ** (-n)
            return RF(p_pow(self.p, n)) if n > 0 else RF(p_pow(self.inv().p, -n))
        return root(self, n.denominator) ** n.numerator

    def __rpow__(self, base):
        b = _tofrac(base)
        if b is None:
            return NotImplemented
        return transc('exp', self * transc('log', RF.const(b)))

    def __abs__(self):
        if self.is_const():
            return RF.const(abs(self.cval()))
        if UNDEF_ON[0] and has_undef(self):
            return undef("propagated")
        r = root(self * self, 2)
        for m in r.p:
            for a, e in m:
                if A.kind[a] == 'rad':
                    ABS_ATOMS.add(a)
        return AbsRF(r.p, term_deps(self))

    def __gt__(self, o):
        return SymBool('>', self - self._coerce(o))

    def __lt__(self, o):
        return SymBool('>', self._coerce(o) - self)

    def __ge__(self, o):
        return SymBool('>=', self - self._coerce(o))

    def __le__(self, o):
        return SymBool('>=', self._coerce(o) - self)

    def __bool__(self):
        if self.is_const():
            return bool(self.cval())
        return not PATH.decide(('==0', rf_key(self)), SymBool('==', self))

    def __eq__(self, o):
        o = self._coerce(o)
        if o is NotImplemented:
            return False
        d = self - o
        if d.is_const():
            return not d.p
        if iszero(d):
            return True
        if GENERIC[0]:
            return False          # generic position: distinct terms are not equal (ties have measure zero)
        return PATH.decide(('==0', rf_key(d)), SymBool('==', d))

    def __ne__(self, o):
        return not self.__eq__(o)

    def __hash__(self):
        return id(self)

    def __float__(self):
        if self.is_const():
            return float(self.cval())
        raise OutsideFragment("float() of a symbolic value")

    def __int__(self):
        if self.is_const() and self.cval().denominator == 1:
            return int(self.cval())
        raise OutsideFragment("int() of a symbolic value")

    def __complex__(self):
        return complex(float(self))

    def sqrt(self):
        return root(self, 2)

    def sin(self):
        return trig(self)[0]

    def cos(self):
        return trig(self)[1]

    def tan(self):
        s, c = trig(self)
        return s / c

    def exp(self):
        return transc('exp', self)

    def log(self):
        return transc('log', self)

    def log10(self):
        return transc('log', self) / transc('log', RF.const(10))

    def arctan(self):
        return transc('atan', self)

    def conjugate(self):
        return self

    conj = conjugate

    @property
    def real(self):
        return self

    @property
    def imag(self):
        return RF({})

    def __repr__(self):
        return show(self, 6)

    def copy(self):
        return self

    def __deepcopy__(self, memo):
        return self

    def __copy__(self):
        return self


ABS_EVENTS = []        # variable sets of abs() results that were used arithmetically (not merely compared)


class AbsRF(RF):
    """the result of abs(x): behaves as its value, but records when it is used in arithmetic (|z| is not complex-analytic,
    so a complex-step derivative does not see through it); comparisons (masks, branches on the real part) do not count"""
    __slots__ = ("src",)

    def __init__(self, p, src):
        RF.__init__(self, p)
        self.src = src

    def _ev(self):
        ABS_EVENTS.append(self.src)

    def __add__(self, o):
        self._ev()
        return RF.__add__(self, o)

    __radd__ = __add__

    def __sub__(self, o):
        self._ev()
        return RF.__sub__(self, o)

    def __rsub__(self, o):
        self._ev()
        return RF.__rsub__(self, o)

    def __mul__(self, o):
        self._ev()
        return RF.__mul__(self, o)

    __rmul__ = __mul__

    def __truediv__(self, o):
        self._ev()
        return RF.__truediv__(self, o)

    def __rtruediv__(self, o):
        self._ev()
        return RF.__rtruediv__(self, o)

    def __pow__(self, n):
        self._ev()
        return RF.__pow__(self, n)

    def __neg__(self):
        self._ev()
        return RF.__neg__(self)


class SymBool:
    """comparison of a term with 0: op in '>', '>=', '=='"""

    def __init__(self, op, val):
        self.op = op
        self.val = val

    def const_value(self):
        if self.val.is_const():
            c = self.val.cval()
            return c > 0 if self.op == '>' else (c >= 0 if self.op == '>=' else c == 0)
        return None

    def __bool__(self):
        v = self.const_value()
        if v is not None:
            return v
        s = sign_of(self.val)
        if s is not None:
            if self.op == '>':
                return s > 0
            if self.op == '>=' and s >= 0:
                return True
        return PATH.decide((self.op, rf_key(self.val)), self)

    def indicator(self):
        v = self.const_value()
        if v is not None:
            return RF.const(1 if v else 0)
        i = A.new("ind#%d" % len(A.names), 'ind', self, key=('ind', self.op, p_key(self.val.p)))
        return RF.atom(i)

    def __invert__(self):
        return SymBool('>' if self.op == '>=' else '>=', -self.val) if self.op != '==' else _Not(self)

    def __repr__(self):
        return "(%s %s 0)" % (show(self.val, 4), self.op)


class _Not:
    def __init__(self, b):
        self.b = b

    def __bool__(self):
        return not bool(self.b)


def sign_of(x):
    """+1 / 0 / -1 when the sign of the term is syntactically forced (products of rad atoms with a constant), else None"""
    if not x.p:
        return 0
    if len(x.p) == 1:
        (m, c), = x.p.items()
        for a, e in m:
            if A.kind[a] != 'rad' and e % 2:
                return None
        # even powers or rad atoms: non-negative; cannot exclude zero -> only weak sign
        return None
    return None


def rf_key(x):
    return p_key(x.p)


def root(x, k):
    """principal k-th root of x (x >= 0 is recorded as a definedness condition for even k)"""
    if UNDEF_ON[0] and has_undef(x):
        return undef("propagated")
    if x.is_const():
        c = x.cval()
        if c == 0:
            return RF({})
        if c == 1:
            return RF.const(1)
        if c < 0 and k % 2 == 0:
            raise OutsideFragment("even root of a negative constant")
        r = _exact_root(c, k)
        if r is not None:
            return RF.const(r)
    if has_defs(x.p):
        x = RF(expand_defs(x.p))          # definition atoms are never nested inside other atoms
        if x.is_const():
            return root(x, k) if x.p else RF({})
    if len(x.p) >= 2:
        c0 = _const_candidate(x)
        if c0 is not None:
            return root(RF.const(c0), k)
    g = mono_gcd(x.p)
    pull = []
    for a, e in g:
        q = int(e / k) if e > 0 else -int(-e / k)
        # only factors known to be non-negative may be pulled out of an even root: radicals, and even powers
        # (a**(q) with q even) of anything
        if q and (A.kind[a] == 'rad' or k % 2 == 1 or q % 2 == 0):
            pull.append((a, q))
    inner = x.p
    if pull:
        inner = p_reduce(p_mul_raw(inner, {tuple((a, -q * k) for a, q in pull): F1}))
    if not inner:
        return RF({})
    c, q = p_normalize(inner)
    if c < 0 and k % 2 == 0:
        # radicand = c*q must be >= 0 with c < 0: write it as |c| * (-q)
        if len(q) == 1 and ONE in q:
            raise OutsideFragment("even root of a negative quantity")
        q = p_scale(q, -1)
        c = -c
    if len(q) == 1 and ONE in q:
        res = RF({tuple(sorted(pull)): F1}) if pull else RF.const(1)
    else:
        key = ('rad', k, p_key(q))
        new = key not in A.by_key
        rid = A.new("rad%d#%d" % (k, len(A.names)), 'rad', (k, q), key=key)
        if new and k % 2 == 0:
            DEFINED.append(('nonneg', RF(q)))
        res = RF({tuple(sorted(pull + [(rid, 1)])): F1})
    if c != 1:
        r = _exact_root(c, k)
        if r is not None:
            res = res * r
        else:
            cc = A.new("crad%d(%s)" % (k, c), 'rad', (k, p_const(c)), key=('rad', k, p_key(p_const(c))))
            res = res * RF.atom(cc)
    return RF(p_reduce(res.p))


def _const_candidate(x):
    """if the term x (with inverse powers / inv atoms) is *exactly* a rational constant on the admissible set, return
    it: a numerical guess at one point, confirmed by the exact zero test; else None"""
    has_neg = False
    for m in x.p:
        for a, e in m:
            if e < 0 or A.kind[a] == 'inv':
                has_neg = True
                break
        if has_neg:
            break
    if not has_neg:
        return None
    import random as _r
    rng = _r.Random(12345)
    env = {a: 0.37 + 1.1 * rng.random() for a in term_deps(x)}
    try:
        v = evalf(x, env)
    except (Undefined, ZeroDivisionError, OverflowError, ValueError, KeyError):
        return None
    if isinstance(v, complex) or v != v:
        return None
    c = Fraction(v).limit_denominator(1000)
    if abs(float(c) - v) > 1e-9 * max(1.0, abs(v)):
        return None
    try:
        if iszero(x - RF.const(c)):
            return c
    except TooBig:
        return None
    return None


def _iroot(n, k):
    if n < 0:
        return None
    if n < 2:
        return n
    r = int(round(n ** (1.0 / k)))
    for cand in (r - 1, r, r + 1):
        if cand >= 0 and cand ** k == n:
            return cand
    return None


def _exact_root(c, k):
    sgn = 1
    if c < 0:
        if k % 2 == 0:
            return None
        sgn = -1
        c = -c
    n = _iroot(c.numerator, k)
    d = _iroot(c.denominator, k)
    if n is None or d is None:
        return None
    return Fraction(sgn * n, d)


def trig(u):
    """(sin u, cos u)"""
    if isinstance(u, Angle):
        return u.sin(), u.cos()
    if has_defs(u.p):
        u = RF(expand_defs(u.p))
    if not u.p:
        return RF({}), RF.const(1)
    # sin/cos of a single atan atom with coefficient +-1 are algebraic
    if len(u.p) == 1:
        (m, c), = u.p.items()
        if len(m) == 1 and m[0][1] == 1 and A.kind[m[0][0]] == 'atan' and c in (1, -1):
            t = A.info[m[0][0]]
            r = root(t * t + 1, 2)
            return (t / r) * c, 1 / r
    c, _ = p_normalize(u.p)
    sgn = 1
    if c < 0:
        u = -u
        sgn = -1
    key = rf_key(u)
    cid = A.new("cos#%d" % len(A.names), 'cos', u, key=('cos', key))
    sid = A.new("sin#%d" % len(A.names), 'sin', cid, key=('sin', key))
    return RF({((sid, 1),): Fraction(sgn)}), RF.atom(cid)


class Angle:
    """arctan(t) kept unevaluated: usable inside sin/cos (algebraic forms) and as a real atom via .term()"""
    __slots__ = ("t",)

    def __init__(self, t):
        self.t = t

    def sin(self):
        return self.t / root(self.t * self.t + 1, 2)

    def cos(self):
        return 1 / root(self.t * self.t + 1, 2)

    def term(self):
        return transc('atan', self.t)

    def __neg__(self):
        return Angle(-self.t)                  # arctan is odd

    def __pos__(self):
        return self


def transc(kind, u):
    if UNDEF_ON[0] and has_undef(u):
        return undef("propagated")
    if has_defs(u.p):
        u = RF(expand_defs(u.p))
    if kind == 'exp' and not u.p:
        return RF.const(1)
    if kind == 'log' and u.is_const() and u.cval() == 1:
        return RF({})
    if kind == 'atan' and not u.p:
        return RF({})
    if kind == 'acos' and u.is_const() and u.cval() == 1:
        return RF({})
    if kind == 'log' and u.is_const() and u.cval() <= 0:
        return undef("log of a non-positive constant")          # -inf / nan of the float code: absorbing, must not reach an output
    if kind == 'exp' and len(u.p) == 1:
        # exp(c*log(a)) with integer c
        (m, c), = u.p.items()
        if len(m) == 1 and m[0][1] == 1 and A.kind[m[0][0]] == 'log' and c.denominator == 1:
            return A.info[m[0][0]] ** int(c)
    key = (kind, rf_key(u))
    new = key not in A.by_key
    i = A.new("%s#%d" % (kind, len(A.names)), kind, u, key=key)
    if new and kind == 'log':
        DEFINED.append(('pos', u))
    if new and kind == 'acos':
        DEFINED.append(('nonneg', RF.const(1) - u * u))
    return RF.atom(i)


POW_ABSTRACT = [6, 14]


def def_atom(x):
    """definition atom standing for the term x"""
    c, q = p_normalize(x.p)
    key = ('def', p_key(x.p))
    return A.new("def#%d" % len(A.names), 'def', x, key=key)


def expand_defs(p):
    """substitute every definition atom by its definition (recursively)"""
    while True:
        target = None
        for m in p:
            for a, e in m:
                if A.kind[a] == 'def':
                    if target is None or a > target:
                        target = a
        if target is None:
            return p
        D = A.info[target].p
        out = {}
        pw = {}
        for m, c in p.items():
            e = 0
            rest = []
            for b, f in m:
                if b == target:
                    e = f
                else:
                    rest.append((b, f))
            if e == 0:
                _acc(out, m, c)
                continue
            if e not in pw:
                pw[e] = p_pow(D, e) if e > 0 else p_pow(RF(D).inv().p, -e)
            for mm, cc in p_mul_raw({tuple(rest): c}, pw[e]).items():
                _acc(out, mm, cc)
        p = p_reduce(out)


def has_defs(p):
    for m in p:
        for a, e in m:
            if A.kind[a] == 'def':
                return True
    return False


def clear_inverses(p, limit=2000000):
    """numerator of p after multiplying by all denominators (fixpoint: radicals' defining polynomials may
    re-introduce inv atoms)"""
    while p:
        neg = {}
        for m in p:
            for a, e in m:
                if e < 0:
                    if e < neg.get(a, 0):
                        neg[a] = e
        if neg:
            mult = tuple(sorted((a, -e) for a, e in neg.items()))
            p = p_reduce(p_mul_raw(p, {mult: F1}))
            continue
        worst = None
        for m in p:
            for a, e in m:
                if A.kind[a] == 'inv':
                    if worst is None or a > worst[0] or (a == worst[0] and e > worst[1]):
                        worst = (a, e)
        if worst is None:
            break
        a, k = worst
        Q = A.info[a]
        out = {}
        Qpows = {0: p_const(1)}
        for j in range(1, k + 1):
            Qpows[j] = p_mul(Qpows[j - 1], Q)
        for m, c in p.items():
            e = 0
            rest = []
            for b, f in m:
                if b == a:
                    e = f
                else:
                    rest.append((b, f))
            for mm, cc in p_mul_raw({tuple(rest): c}, Qpows[k - e]).items():
                _acc(out, mm, cc)
        p = p_reduce(out)
        if len(p) > limit:
            raise TooBig(len(p))
    return p


class TooBig(Exception):
    pass


def iszero(x):
    if not isinstance(x, RF):
        return x == 0
    if not x.p:
        return True
    if x.is_const():
        return False
    r = clear_inverses(x.p)
    if not r:
        return True
    if has_defs(r) or _defs_inside(r):
        r = clear_inverses(expand_defs(_expand_nested(r)))
        return not r
    return False


def _defs_inside(p):
    """does any inv atom's polynomial mention a definition atom?"""
    for m in p:
        for a, e in m:
            if A.kind[a] == 'inv' and has_defs(A.info[a]):
                return True
    return False


def _expand_nested(p):
    return p


# ---------------------------------------------------------------------------------------------------------------
# dependencies and differentiation

def atom_deps(a):
    """frozenset of var atoms atom a depends on (through its definition)"""
    d = A.deps[a]
    if d is not None:
        return d
    k = A.kind[a]
    info = A.info[a]
    if k == 'var':
        d = frozenset((a,))
    elif k == 'rad':
        d = poly_deps(info[1])
    elif k in ('cos', 'exp', 'log', 'atan', 'def', 'acos'):
        d = poly_deps(info.p)
    elif k == 'sin':
        d = atom_deps(info)
    elif k == 'inv':
        d = poly_deps(info)
    elif k == 'undef':
        d = frozenset()
    elif k == 'ind':
        d = poly_deps(info.val.p)
    elif k in ('fun', 'dfun'):
        s = set()
        for arg in info[1]:
            for t in arg:
                s |= poly_deps(t.p)
        d = frozenset(s)
    else:
        d = frozenset()
    A.deps[a] = d
    return d


def poly_deps(p):
    s = set()
    seen = set()
    for m in p:
        for a, _ in m:
            if a not in seen:
                seen.add(a)
                s |= atom_deps(a)
    return frozenset(s)


def term_deps(x):
    return poly_deps(x.p) if isinstance(x, RF) else frozenset()


def p_diff_atom(p, a):
    out = {}
    for m, c in p.items():
        for idx, (b, e) in enumerate(m):
            if b == a:
                rest = m[:idx] + (((b, e - 1),) if e != 1 else ()) + m[idx + 1:]
                _acc(out, rest, c * e)
                break
    return out


def d_atom(a, x):
    key = (a, x)
    r = _dcache.get(key)
    if r is not None:
        return r
    k = A.kind[a]
    if x not in atom_deps(a):
        r = RF({})
    elif k == 'var':
        r = RF.const(1 if a == x else 0)
    elif k == 'rad':
        kk, P = A.info[a]
        dp = diff(RF(P), x)
        r = dp * RF({((a, 1 - kk),): Fraction(1, kk)}) if dp.p else RF({})
    elif k == 'cos':
        u = A.info[a]
        sid = A.by_key[('sin', rf_key(u))]
        r = -RF.atom(sid) * diff(u, x)
    elif k == 'sin':
        cid = A.info[a]
        r = RF.atom(cid) * diff(A.info[cid], x)
    elif k == 'exp':
        r = RF.atom(a) * diff(A.info[a], x)
    elif k == 'log':
        r = diff(A.info[a], x) / A.info[a]
    elif k == 'atan':
        u = A.info[a]
        r = diff(u, x) / (u * u + 1)
    elif k == 'acos':
        u = A.info[a]
        r = -diff(u, x) / root(RF.const(1) - u * u, 2)
    elif k == 'ind':
        r = RF({})
    elif k == 'def':
        r = diff(A.info[a], x)
    elif k == 'fun':
        fname, args, comp = A.info[a]
        r = RF({})
        for pos, arg in enumerate(args):
            for kk, ak in enumerate(arg):
                dak = diff(ak, x)
                if dak.p:
                    r = r + RF.atom(dfun_atom(fname, args, comp, pos, kk)) * dak
    elif k == 'dfun':
        raise OutsideFragment("second derivative of an opaque helper")
    elif k == 'inv':
        r = -RF.atom(a, 2) * diff(RF(A.info[a]), x)
    else:
        raise OutsideFragment("derivative of atom kind %s" % k)
    _dcache[key] = r
    return r


def diff(f, x):
    """d f / d x for a var atom id x"""
    if not isinstance(f, RF):
        return RF({})
    tot = RF({})
    seen = set()
    for m in f.p:
        for a, _ in m:
            seen.add(a)
    for a in seen:
        if x not in atom_deps(a):
            continue
        da = d_atom(a, x)
        if da.p:
            tot = tot + RF(p_reduce(p_diff_atom(f.p, a))) * da
    return tot


def var_id(v):
    """atom id of a term that is a bare variable"""
    (m, c), = v.p.items()
    assert len(m) == 1 and m[0][1] == 1 and c == 1 and A.kind[m[0][0]] == 'var', "not a bare variable"
    return m[0][0]


# ---------------------------------------------------------------------------------------------------------------
# object arrays

GENERIC = [False]


EAGER_MASKS = [False]      # comparisons of arrays are decided element by element (path split) instead of staying symbolic


def _cmp(r):
    r = r.view(SymArray)
    if EAGER_MASKS[0]:
        out = np.empty(r.shape, dtype=bool)
        for idx in (np.ndindex(*r.shape) if r.shape else [()]):
            out[idx] = bool(r[idx])
        return out
    return r


class SymArray(np.ndarray):
    def __eq__(self, o):
        return _cmp(np.equal(self, o, dtype=object))

    def __ne__(self, o):
        return _cmp(np.not_equal(self, o, dtype=object))

    def __gt__(self, o):
        return _cmp(np.greater(self, o, dtype=object))

    def __lt__(self, o):
        return _cmp(np.less(self, o, dtype=object))

    def __ge__(self, o):
        return _cmp(np.greater_equal(self, o, dtype=object))

    def __le__(self, o):
        return _cmp(np.less_equal(self, o, dtype=object))

    def __array_wrap__(self, out, context=None, return_scalar=False):
        if getattr(out, "ndim", 1) == 0:
            return out[()]
        return out.view(SymArray) if isinstance(out, np.ndarray) else out

    def __setitem__(self, key, val):
        if isinstance(key, np.ndarray) and key.dtype == object and key.shape == self.shape and key.size \
                and any(isinstance(b, SymBool) for b in key.reshape(-1)):
            # boolean-mask assignment with symbolic conditions: blend through 0/1 indicator atoms
            val = np.broadcast_to(np.asarray(val, dtype=object), self.shape)
            for idx in np.ndindex(*self.shape):
                b = key[idx]
                ind = b.indicator() if isinstance(b, SymBool) else RF.const(1 if b else 0)
                np.ndarray.__setitem__(self, idx, ind * val[idx] + (1 - ind) * self[idx])
            return
        np.ndarray.__setitem__(self, key, val)

    @property
    def real(self):
        return self

    @property
    def imag(self):
        z = np.empty(self.shape, dtype=object).view(SymArray)
        z[...] = RF({})
        return z


def symarray(name, shape):
    if isinstance(shape, int):
        shape = (shape,)
    a = np.empty(shape, dtype=object).view(SymArray)
    for idx in (np.ndindex(*shape) if shape else [()]):
        a[idx] = RF.var(name + "".join("[%d]" % i for i in idx))
    return a


def lift(x):
    """float/int/object array or scalar -> SymArray/RF of exact constants"""
    if isinstance(x, RF):
        return x
    if isinstance(x, np.ndarray) and x.dtype == object:
        out = np.empty(x.shape, dtype=object).view(SymArray)
        for idx in np.ndindex(*x.shape):
            v = x[idx]
            out[idx] = v if isinstance(v, RF) else RF.const(_tofrac(v))
        return out
    x = np.asarray(x)
    if x.shape == ():
        return RF.const(_tofrac(x[()]))
    out = np.empty(x.shape, dtype=object).view(SymArray)
    for idx in np.ndindex(*x.shape):
        out[idx] = RF.const(_tofrac(x[idx]))
    return out


# ---------------------------------------------------------------------------------------------------------------
# paths

class Path:
    """decision-replay path exploration for Python-level branches on symbolic values"""

    def __init__(self):
        self.script = []
        self.pos = 0
        self.taken = []
        self.exploring = False
        self.unexplored = []          # decisions taken while no exploration was running: only the False branch was seen
        # whole-job exploration (runner): decisions met outside env.explore are scripted per pass of the job
        self.whole = False
        self.outer_script = []
        self.outer_taken = []
        self.mute = False

    def start(self, script):
        self.script = list(script)
        self.pos = 0
        self.taken = []

    def decide(self, key, cond):
        if self.mute:
            return False                  # evaluation whose result is not used (an unrelated instance kept busy): any branch will do
        for k, v, b in self.outer_taken:
            if k == key:
                return b
        if not self.exploring and self.whole:
            n = len(self.outer_taken)
            b = self.outer_script[n] if n < len(self.outer_script) else False
            self.outer_taken.append((key, cond, b))
            return b
        for k, v, b in self.taken:
            if k == key:
                return b
        b = self.script[self.pos] if self.pos < len(self.script) else False
        self.pos += 1
        self.taken.append((key, cond, b))
        if not self.exploring:
            self.unexplored.append(cond)
        return b


PATH = Path()


def explore(fn, max_paths=None):
    """run fn() under every decision script; yields (taken, result).  The consumer's loop body runs on the same path (its
    decisions replay by key); a decision it meets for the first time there is not explored and is recorded as such"""
    if max_paths is None:
        import os as _os
        max_paths = 256 if _os.environ.get("OASVERIF_TIER", "quick") != "thorough" else 2048
    todo = [[]]
    n = 0
    try:
        while todo:
            script = todo.pop()
            PATH.start(script)
            PATH.exploring = True
            res = fn()
            taken = list(PATH.taken)
            n += 1
            if n > max_paths:
                raise OutsideFragment("more than %d paths" % max_paths)
            yield taken, res
            if len(PATH.taken) > len(taken):
                PATH.unexplored.extend(c for k, c, b in PATH.taken[len(taken):])
            for i in range(len(script), len(taken)):
                todo.append([t[2] for t in taken[:i]] + [True])
    finally:
        PATH.exploring = False
        PATH.start([])


# ---------------------------------------------------------------------------------------------------------------
# substitution

def substitute(f, mapping, _memo=None):
    """replace var atoms by terms: mapping {var atom id: RF or number}; rebuilds nested atoms through the constructors"""
    if not isinstance(f, RF):
        return f
    memo = {} if _memo is None else _memo
    keys = frozenset(mapping)
    out = RF({})
    for m, c in f.p.items():
        t = RF({ONE: c})
        for a, e in m:
            t = t * (_subs_atom(a, mapping, keys, memo) ** e)
        out = out + t
    return RF(p_reduce(out.p))


def _subs_atom(a, mapping, keys, memo):
    r = memo.get(a)
    if r is not None:
        return r
    k = A.kind[a]
    info = A.info[a]
    if not (atom_deps(a) & keys):
        r = RF.atom(a)
    elif k == 'var':
        r = mapping[a]
        if not isinstance(r, RF):
            r = RF.const(_tofrac(r))
    elif k == 'rad':
        r = root(substitute(RF(info[1]), mapping, memo), info[0])
    elif k == 'cos':
        r = trig(substitute(info, mapping, memo))[1]
    elif k == 'sin':
        r = trig(substitute(A.info[info], mapping, memo))[0]
    elif k in ('exp', 'log', 'atan', 'acos'):
        r = transc(k, substitute(info, mapping, memo))
    elif k == 'inv':
        r = substitute(RF(info), mapping, memo).inv()
    elif k == 'def':
        r = substitute(info, mapping, memo)
    elif k == 'fun':
        fname, args, comp = info
        nargs = tuple(tuple(substitute(t, mapping, memo) for t in arg) for arg in args)
        r = RF.atom(fun_atom(fname, nargs, comp))
    else:
        raise OutsideFragment("substitution into atom kind %s" % k)
    memo[a] = r
    return r


def subs_array(arr, mapping):
    memo = {}
    if isinstance(arr, RF):
        return substitute(arr, mapping, memo)
    arr = np.asarray(arr, dtype=object)
    out = np.empty(arr.shape, dtype=object).view(SymArray)
    for idx in np.ndindex(*arr.shape):
        out[idx] = substitute(arr[idx], mapping, memo) if isinstance(arr[idx], RF) else arr[idx]
    return out


# ---------------------------------------------------------------------------------------------------------------
# opaque helper atoms

def _argkey(args):
    return tuple(tuple(rf_key(a) for a in arg) for arg in args)


def fun_atom(fname, args, comp):
    return A.new("%s[%d]#%d" % (fname, comp, len(A.names)), 'fun', (fname, args, comp),
                 key=('fun', fname, _argkey(args), comp))


def dfun_atom(fname, args, comp, pos, k):
    return A.new("d%s[%d]/d%d.%d#%d" % (fname, comp, pos, k, len(A.names)), 'dfun', (fname, args, comp, pos, k),
                 key=('dfun', fname, _argkey(args), comp, pos, k))


# ---------------------------------------------------------------------------------------------------------------
# numeric evaluation (witness search, shim cross-check)

class Undefined(Exception):
    pass


def evalf(f, env, cache=None, ctx=None):
    """evaluate term f numerically; env: {var atom id: number}. ctx: None -> python floats, else an mpmath context"""
    if not isinstance(f, RF):
        return f
    if cache is None:
        cache = {}
    tot = 0
    for m, c in f.p.items():
        v = (ctx.mpf(c.numerator) / c.denominator) if ctx is not None else c.numerator / c.denominator
        for a, e in m:
            av = _eval_atom(a, env, cache, ctx)
            if e < 0 and av == 0:
                raise Undefined("division by zero in atom %s" % A.names[a])
            v = v * av ** e
        tot = tot + v
    return tot


def _eval_atom(a, env, cache, ctx):
    if a in cache:
        return cache[a]
    k = A.kind[a]
    info = A.info[a]
    M = ctx if ctx is not None else math
    if k == 'var':
        if a not in env:
            raise KeyError("no value for variable %s" % A.names[a])
        r = env[a]
        if ctx is not None:
            r = ctx.mpf(r) if not isinstance(r, Fraction) else ctx.mpf(r.numerator) / r.denominator
        elif isinstance(r, Fraction):
            r = float(r)
    elif k == 'rad':
        v = evalf(RF(info[1]), env, cache, ctx)
        if v < 0 and info[0] % 2 == 0 and v > (-1e-9 if ctx is None else -1e-30):
            v = v * 0                      # a radicand that is 0 up to cancellation noise (e.g. |a - b| at a == b)
        if v < 0:
            if info[0] % 2 == 0:
                raise Undefined("negative radicand")
            r = -((-v) ** (1.0 / info[0] if ctx is None else ctx.mpf(1) / info[0]))
        else:
            r = v ** (1.0 / info[0] if ctx is None else ctx.mpf(1) / info[0])
    elif k == 'cos':
        r = M.cos(evalf(info, env, cache, ctx))
    elif k == 'sin':
        r = M.sin(evalf(A.info[info], env, cache, ctx))
    elif k == 'exp':
        r = M.exp(evalf(info, env, cache, ctx))
    elif k == 'log':
        v = evalf(info, env, cache, ctx)
        if v <= 0:
            raise Undefined("log of non-positive")
        r = M.log(v)
    elif k == 'atan':
        r = M.atan(evalf(info, env, cache, ctx))
    elif k == 'acos':
        v = evalf(info, env, cache, ctx)
        if abs(v) > 1:
            raise Undefined("acos argument outside [-1, 1]")
        r = M.acos(v)
    elif k == 'def':
        r = evalf(info, env, cache, ctx)
    elif k == 'inv':
        v = evalf(RF(info), env, cache, ctx)
        if v == 0:
            raise Undefined("1/0")
        r = 1 / v
    elif k == 'ind':
        v = evalf(info.val, env, cache, ctx)
        r = 1 if ((v > 0) if info.op == '>' else (v >= 0 if info.op == '>=' else v == 0)) else 0
    elif k == 'undef':
        raise Undefined("undefined value")
    elif k in ('fun', 'dfun'):
        r = FUN_EVAL(a, env, cache, ctx)
    else:
        raise KeyError(k)
    cache[a] = r
    return r


class IvUnknown(Exception):
    """interval evaluation cannot proceed on this box (a singularity or a branch lies inside it)"""


def evaliv(f, box, cache=None):
    """interval enclosure of term f over the box {var atom id: mpmath.iv interval}; sound outward-rounded arithmetic
    (mpmath.iv); raises IvUnknown where a pole, a negative radicand, a non-positive log argument or an undetermined
    indicator lies inside the box"""
    from mpmath import iv
    if not isinstance(f, RF):
        return iv.mpf(f)
    if cache is None:
        cache = {}
    tot = iv.mpf(0)
    for m, c in f.p.items():
        v = iv.mpf(c.numerator) / iv.mpf(c.denominator)
        for a, e in m:
            av = _iv_atom(a, box, cache)
            if e < 0:
                if av.a <= 0 <= av.b:
                    raise IvUnknown("division by an interval containing 0")
                v = v * (1 / av) ** (-e)
            else:
                v = v * av ** e
        tot = tot + v
    return tot


def _iv_atom(a, box, cache):
    from mpmath import iv
    if a in cache:
        return cache[a]
    k = A.kind[a]
    info = A.info[a]
    if k == 'var':
        if A.names[a] == "pi":
            r = iv.pi
        else:
            r = box[a]
    elif k == 'rad':
        v = evaliv(RF(info[1]), box, cache)
        if info[0] % 2 == 0:
            if v.a < 0:
                raise IvUnknown("radicand may be negative")
            r = iv.sqrt(v) if info[0] == 2 else iv.exp(iv.log(v) / info[0]) if v.a > 0 else _iv_root0(v, info[0])
        else:
            if v.a > 0:
                r = iv.exp(iv.log(v) / info[0])
            elif v.b < 0:
                r = -iv.exp(iv.log(-v) / info[0])
            else:
                raise IvUnknown("odd root across 0")
    elif k == 'cos':
        r = iv.cos(evaliv(info, box, cache))
    elif k == 'sin':
        r = iv.sin(evaliv(A.info[info], box, cache))
    elif k == 'exp':
        r = iv.exp(evaliv(info, box, cache))
    elif k == 'log':
        v = evaliv(info, box, cache)
        if v.a <= 0:
            raise IvUnknown("log argument may be non-positive")
        r = iv.log(v)
    elif k == 'def':
        r = evaliv(info, box, cache)
    elif k == 'inv':
        v = evaliv(RF(info), box, cache)
        if v.a <= 0 <= v.b:
            raise IvUnknown("pole inside the box")
        r = 1 / v
    elif k == 'ind':
        v = evaliv(info.val, box, cache)
        if info.op == '>':
            t = True if v.a > 0 else (False if v.b <= 0 else None)
        elif info.op == '>=':
            t = True if v.a >= 0 else (False if v.b < 0 else None)
        else:
            t = False if (v.a > 0 or v.b < 0) else None
        if t is None:
            raise IvUnknown("indicator undetermined on the box")
        r = iv.mpf(1 if t else 0)
    else:
        raise IvUnknown("atom kind %s has no interval extension" % k)
    cache[a] = r
    return r


def _iv_root0(v, n):
    from mpmath import iv
    hi = iv.exp(iv.log(iv.mpf(v.b)) / n) if v.b > 0 else iv.mpf(0)
    return iv.mpf([0, hi.b])


def _no_fun_eval(a, env, cache, ctx):
    raise Undefined("opaque helper atom has no numeric evaluator")


FUN_EVAL = _no_fun_eval


def all_vars(terms):
    s = set()
    for t in terms:
        if isinstance(t, RF):
            s |= term_deps(t)
    return s


# ---------------------------------------------------------------------------------------------------------------
# printing

def show_atom(a, depth=3):
    k = A.kind[a]
    info = A.info[a]
    if k == 'var':
        return A.names[a]
    if depth <= 0:
        return "%s#%d" % (k, a)
    if k == 'rad':
        return "root%d(%s)" % (info[0], show(RF(info[1]), 4, depth - 1))
    if k == 'cos':
        return "cos(%s)" % show(info, 4, depth - 1)
    if k == 'sin':
        return "sin(%s)" % show(A.info[info], 4, depth - 1)
    if k in ('exp', 'log', 'atan', 'def', 'acos'):
        return "%s(%s)" % (k, show(info, 4, depth - 1))
    if k == 'inv':
        return "inv(%s)" % show(RF(info), 4, depth - 1)
    if k == 'ind':
        return "[%s %s 0]" % (show(info.val, 3, depth - 1), info.op)
    return A.names[a]


def show(f, maxterms=8, depth=2):
    if not isinstance(f, RF):
        return repr(f)
    if not f.p:
        return "0"
    parts = []
    for n, (m, c) in enumerate(sorted(f.p.items())):
        if n >= maxterms:
            parts.append("... (%d terms)" % len(f.p))
            break
        s = "*".join((show_atom(a, depth) + ("^%d" % e if e != 1 else "")) for a, e in m)
        cs = str(c)
        parts.append(cs + ("*" + s if s else "") if (c != 1 or not s) else s)
    return " + ".join(parts)


def subs_indicators(f, value, only=None):
    """f with every top-level indicator atom (every one whose condition satisfies `only`, if given) replaced by the
    constant value (0 or 1)"""
    out = {}
    for m, c in f.p.items():
        keep = []
        dead = False
        for a, e in m:
            if A.kind[a] == 'ind' and (only is None or only(A.info[a])):
                if value == 0:
                    dead = True
                    break
            else:
                keep.append((a, e))
        if not dead:
            _acc(out, tuple(keep), c)
    return RF(out)


def value_atoms(x, _seen=None):
    """atoms the *value* of term x flows through (definitions followed through radicals, inverses, trigonometric,
    exponential, definition and helper atoms -- not through the conditions of 0/1 indicator atoms)"""
    seen = set() if _seen is None else _seen
    stack = [a for m in x.p for a, e in m]
    while stack:
        a = stack.pop()
        if a in seen:
            continue
        seen.add(a)
        k = A.kind[a]
        info = A.info[a]
        sub = None
        if k == 'rad':
            sub = info[1]
        elif k == 'inv':
            sub = info
        elif k in ('cos', 'exp', 'log', 'atan', 'acos', 'def'):
            sub = info.p
        elif k == 'sin':
            stack.append(info)
        elif k in ('fun', 'dfun'):
            for arg in info[1]:
                for t in arg:
                    stack.extend(a2 for m in t.p for a2, e in m)
        if sub is not None:
            stack.extend(a2 for m in sub for a2, e in m)
    return seen
