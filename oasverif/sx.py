"""Symbolic execution of the real OpenMDAO component methods of /repo.

A check imports the real module from /repo's working tree, instantiates the real class, lets the real OpenMDAO run the
real setup(), and then calls the real bound methods on containers holding numpy object arrays of exact terms.  The only
substitution is the module-global name ``np`` (and the scipy names listed in SCIPY_NAMES) in the loaded
``openaerostruct.*`` modules, for the duration of the call.
"""
import os
import sys
import contextlib
import warnings
from fractions import Fraction

os.environ.setdefault("OPENMDAO_REPORTS", "0")
os.environ.setdefault("OPENMDAO_REQUIRE_MPI", "0")
REPO = os.environ.get("OASVERIF_REPO", "/repo")
if REPO not in sys.path:
    sys.path.insert(0, REPO)

import numpy as np
import openmdao.api as om

from . import term as S
from . import npshim
from . import spshim
from . import helpers
from .term import RF, OutsideFragment

warnings.filterwarnings("ignore")

SCIPY_NAMES = ("coo_matrix", "csc_matrix", "csr_matrix", "diags", "splu", "lu_factor", "lu_solve")


def assert_repo():
    import openaerostruct
    f = os.path.realpath(openaerostruct.__file__)
    if not f.startswith(os.path.realpath(REPO) + os.sep):
        raise RuntimeError("openaerostruct imported from %s, not from %s" % (f, REPO))


SYMBOLIC_PI = [True]


@contextlib.contextmanager
def patched(symbolic_pi=None):
    """rebind np (and the scipy names) in every loaded openaerostruct module to the shim; restore afterwards"""
    shim = npshim.make(SYMBOLIC_PI[0] if symbolic_pi is None else symbolic_pi)
    saved = []
    for name, mod in list(sys.modules.items()):
        if mod is None or not (name == "openaerostruct" or name.startswith("openaerostruct.")):
            continue
        d = getattr(mod, "__dict__", None)
        if d is None:
            continue
        if d.get("np") is np:
            saved.append((d, "np", np))
            d["np"] = shim
        for n in SCIPY_NAMES:
            if n in d and not getattr(d[n], "_oasverif_stub", False):
                saved.append((d, n, d[n]))
                d[n] = getattr(spshim, n)
        if helpers.ACTIVE:
            for n, v in list(d.items()):
                hit = helpers.ACTIVE.get(id(v))
                if hit is not None and hit[0] is v:
                    saved.append((d, n, v))
                    d[n] = hit[1]
    _STACK.append(saved)
    try:
        yield shim
    finally:
        _STACK.pop()
        for d, n, v in saved:
            d[n] = v


_STACK = []


@contextlib.contextmanager
def unpatched():
    """inside patched(): temporarily give the repository modules their real numpy / scipy / helpers back (numeric evaluation
    of helper atoms through the real helper while a symbolic run is in progress)"""
    if not _STACK:
        yield
        return
    saved = _STACK[-1]
    current = [(d, n, d[n]) for d, n, v in saved]
    for d, n, v in saved:
        d[n] = v
    try:
        yield
    finally:
        for d, n, v in current:
            d[n] = v


_attr_cache = {}


def self_attrs(cls):
    """names X such that the source of cls (or of a base class defined in the repository) assigns self.X, self.X[...]
    or self.X.data -- the component's own mutable state (read from the AST of the real source on every run)"""
    if cls in _attr_cache:
        return _attr_cache[cls]
    import ast
    import inspect
    import textwrap
    names = set()
    for k in cls.__mro__:
        if not k.__module__.startswith("openaerostruct"):
            continue
        try:
            tree = ast.parse(textwrap.dedent(inspect.getsource(k)))
        except (OSError, TypeError):
            continue
        for node in ast.walk(tree):
            targets = []
            if isinstance(node, ast.Assign):
                targets = node.targets
            elif isinstance(node, (ast.AugAssign, ast.AnnAssign)):
                targets = [node.target]
            for t in targets:
                for tt in (t.elts if isinstance(t, (ast.Tuple, ast.List)) else [t]):
                    while isinstance(tt, (ast.Subscript, ast.Attribute)) and not (
                            isinstance(tt, ast.Attribute) and isinstance(tt.value, ast.Name) and tt.value.id == "self"):
                        tt = tt.value
                    if isinstance(tt, ast.Attribute) and isinstance(tt.value, ast.Name) and tt.value.id == "self":
                        names.add(tt.attr)
    _attr_cache[cls] = names
    return names


class FrameViolation(Exception):
    pass


class SymVec(dict):
    """inputs / outputs container: __getitem__ returns the storage (a writable view, like OpenMDAO vectors);
    __setitem__ writes into the existing storage with OpenMDAO's reshape/broadcast rule."""

    def __init__(self, read_only=False):
        dict.__init__(self)
        self.read_only = read_only
        self.set_attempts = []

    def init(self, k, arr):
        dict.__setitem__(self, k, arr)

    def __setitem__(self, k, v):
        if self.read_only:
            self.set_attempts.append(k)
            raise ValueError("Attempt to set value of '%s' in input vector when it is read only." % k)
        if k not in self:
            raise KeyError("Variable name '%s' not found." % k)
        tgt = dict.__getitem__(self, k)
        if isinstance(v, (RF, int, float, Fraction)) or np.ndim(v) == 0:
            tgt[...] = v
            return
        v = np.asarray(v)
        if v.dtype != object:
            v = S.lift(v)
        if v.shape == tgt.shape:
            tgt[...] = v
        elif v.size == tgt.size:
            tgt[...] = v.reshape(tgt.shape)
        else:
            tgt[...] = v

    def _abs_get_val(self, name, flat=True):
        return self[name].reshape(-1) if flat else self[name]


class SymJac:
    """partials container with the storage layout of OpenMDAO sub-Jacobians: a flat array of length nnz in declared
    order for rows/cols declarations, a 2-D array otherwise; initial content is OpenMDAO's (declared val, else 0)."""

    def __init__(self, info):
        self.info = info            # {(of, wrt): dict(rows, cols, shape, val, method)}
        self.store = {}
        self.sets = {}
        for key, inf in info.items():
            self.store[key] = self._initial(inf)

    @staticmethod
    def _initial(inf):
        val = inf.get('val')
        if inf['rows'] is not None:
            n = len(inf['rows'])
            if val is None:
                return npshim.zeros((n,))
            return S.lift(np.broadcast_to(np.asarray(val, dtype=float), (n,)).copy())
        shape = inf['shape']
        if val is None:
            return npshim.zeros(shape)
        if hasattr(val, "toarray"):
            val = val.toarray()
        return S.lift(np.broadcast_to(np.asarray(val, dtype=float), shape).copy())

    def keys(self):
        return self.store.keys()

    def __contains__(self, k):
        return k in self.store

    def __getitem__(self, k):
        if k not in self.store:
            raise KeyError("Variable name pair %s not found (partial not declared)." % (k,))
        return self.store[k]

    def __setitem__(self, k, v):
        if k not in self.store:
            raise KeyError("Variable name pair %s not found (partial not declared)." % (k,))
        arr = self.store[k]
        self.sets[k] = self.sets.get(k, 0) + 1
        if isinstance(v, spshim.M):
            v = v.toarray()
        if isinstance(v, (RF, int, float, Fraction)) or np.ndim(v) == 0:
            arr[...] = v
            return
        v = np.asarray(v)
        if v.dtype != object:
            v = S.lift(v)
        if self.info[k]['rows'] is None:
            arr[...] = np.atleast_2d(v).reshape(arr.shape) if v.size != 1 else v.reshape(-1)[0]
        else:
            arr[:] = v

    def dense(self, k):
        inf = self.info[k]
        shape = inf['shape']
        arr = self.store[k]
        if inf['rows'] is None:
            return arr.reshape(shape)
        D = npshim.zeros(shape)
        for r, c, v in zip(inf['rows'], inf['cols'], arr):
            D[int(r), int(c)] = D[int(r), int(c)] + v
        return D

    def copy(self):
        j = SymJac(self.info)
        for k in self.store:
            j.store[k] = self.store[k].copy()
        return j


class CompSX:
    """a real component, set up by real OpenMDAO, whose methods are executed on symbolic containers"""

    def __init__(self, comp, name="c", setup_model=None):
        p = om.Problem(reports=False)
        if setup_model is not None:
            setup_model(p.model, comp)
        else:
            p.model.add_subsystem(name, comp, promotes=["*"])
        p.setup(force_alloc_complex=True)
        if getattr(comp, "_oasverif_resetup", False):
            p.final_setup()
            p.setup(force_alloc_complex=True)          # the same Problem set up a second time (a user script that re-configures)
        p.final_setup()
        self.prob = p
        self.comp = comp
        self.pre = comp.pathname + "." if comp.pathname else ""
        self.in_names = list(comp._var_rel_names['input'])
        self.out_names = list(comp._var_rel_names['output'])
        meta = comp._var_rel2meta
        self.shape = {n: tuple(meta[n]['shape']) for n in self.in_names + self.out_names}
        self.default = {n: np.array(meta[n]['val'], dtype=float) for n in self.in_names + self.out_names}
        self.units = {n: meta[n].get('units') for n in self.in_names + self.out_names}
        self.implicit = isinstance(comp, om.ImplicitComponent)
        self.jinfo = {}
        n = len(self.pre)
        for (of, wrt), inf in comp._subjacs_info.items():
            of, wrt = of[n:], wrt[n:]
            if not self.implicit and wrt in self.out_names:
                continue
            val = inf.get('val')
            self.jinfo[of, wrt] = dict(rows=inf.get('rows'), cols=inf.get('cols'), shape=tuple(inf['shape']),
                                       val=val, method=inf.get('method'), dependent=inf.get('dependent', True),
                                       diagonal=inf.get('diagonal'))
            if inf.get('diagonal') and inf.get('rows') is None:
                # diagonal declaration: store as rows=cols=arange
                m = inf['shape'][0]
                self.jinfo[of, wrt]['rows'] = np.arange(m)
                self.jinfo[of, wrt]['cols'] = np.arange(m)
        self.modname = type(comp).__module__
        self.clsname = type(comp).__name__

    # ---- containers
    def sym_inputs(self, tag="", only=None, const=None):
        """fresh symbolic inputs named <tag><name>[i][j]; ``const`` maps names to concrete arrays to use instead"""
        ins = SymVec()
        for n in self.in_names:
            if const is not None and n in const:
                ins.init(n, S.lift(np.broadcast_to(np.asarray(const[n], dtype=float), self.shape[n]).copy()))
            else:
                ins.init(n, S.symarray(tag + n, self.shape[n]))
        return ins

    def out_container(self, havoc=None):
        outs = SymVec()
        for n in self.out_names:
            if havoc:
                outs.init(n, S.symarray("%s<%s>" % (havoc, n), self.shape[n]))
            else:
                outs.init(n, S.lift(np.broadcast_to(self.default[n], self.shape[n]).copy()))
        return outs

    def new_jac(self):
        return SymJac(self.jinfo)

    # ---- execution of the real methods
    def call(self, method, *args, **kw):
        with patched():
            return getattr(self.comp, method)(*args, **kw)

    @staticmethod
    def _run(fn):
        """run a real method under the shim; a symbolic comparison used to index a concrete array cannot stay symbolic:
        switch (for the rest of the job) to deciding array comparisons element by element, i.e. to a path split"""
        try:
            with patched():
                fn()
        except IndexError as e:
            if "arrays used as indices" not in str(e) or S.EAGER_MASKS[0]:
                raise
            S.EAGER_MASKS[0] = True
            with patched():
                fn()

    def compute(self, ins, outs=None, havoc=None):
        if outs is None:
            outs = self.out_container(havoc)
        ins.read_only = True
        try:
            if self.comp._discrete_inputs or self.comp._discrete_outputs:
                self._run(lambda: self.comp.compute(ins, outs, self.comp._discrete_inputs, self.comp._discrete_outputs))
            else:
                self._run(lambda: self.comp.compute(ins, outs))
        finally:
            ins.read_only = False
        return outs

    def compute_partials(self, ins, jac=None):
        if jac is None:
            jac = self.new_jac()
        ins.read_only = True
        try:
            if self.comp._discrete_inputs:
                self._run(lambda: self.comp.compute_partials(ins, jac, self.comp._discrete_inputs))
            else:
                self._run(lambda: self.comp.compute_partials(ins, jac))
        finally:
            ins.read_only = False
        return jac

    def apply_nonlinear(self, ins, outs, res=None):
        if res is None:
            res = self.out_container()
        ins.read_only = True
        try:
            with patched():
                self.comp.apply_nonlinear(ins, outs, res)
        finally:
            ins.read_only = False
        return res

    def linearize(self, ins, outs, jac=None):
        if jac is None:
            jac = self.new_jac()
        ins.read_only = True
        try:
            with patched():
                self.comp.linearize(ins, outs, jac)
        finally:
            ins.read_only = False
        return jac

    # ---- native execution (replay / shim cross-check)
    def native_set(self, values):
        for n in self.in_names:
            if n in values:
                self.prob.set_val(self.pre + n if False else n, np.asarray(values[n], dtype=float).reshape(self.shape[n]))

    def native_compute(self, values, complex_=False):
        """run the real compute natively on float (or complex) inputs; returns {name: array}"""
        dt = complex if complex_ else float
        ins = _NativeVec({n: np.array(values[n], dtype=dt).reshape(self.shape[n]) for n in self.in_names})
        outs = _NativeVec({n: np.array(np.broadcast_to(self.default[n], self.shape[n]), dtype=dt) for n in self.out_names})
        if self.comp._discrete_inputs or self.comp._discrete_outputs:
            self.comp.compute(ins, outs, self.comp._discrete_inputs, self.comp._discrete_outputs)
        else:
            self.comp.compute(ins, outs)
        return outs

    def native_partials(self, values):
        ins = _NativeVec({n: np.array(values[n], dtype=float).reshape(self.shape[n]) for n in self.in_names})
        jac = _NativeJac(self.jinfo)
        if self.comp._discrete_inputs:
            self.comp.compute_partials(ins, jac, self.comp._discrete_inputs)
        else:
            self.comp.compute_partials(ins, jac)
        return jac


class _NativeVec(dict):
    def __setitem__(self, k, v):
        if k in self:
            tgt = dict.__getitem__(self, k)
            v = np.asarray(v)
            if v.ndim and v.size == tgt.size:
                tgt[...] = v.reshape(tgt.shape)
            else:
                tgt[...] = v
        else:
            dict.__setitem__(self, k, v)


class _NativeJac:
    def __init__(self, info):
        self.info = info
        self.store = {}
        for k, inf in info.items():
            val = inf.get('val')
            if inf['rows'] is not None:
                n = len(inf['rows'])
                self.store[k] = np.zeros(n) if val is None else np.array(np.broadcast_to(np.asarray(val, dtype=float), (n,)))
            else:
                if hasattr(val, "toarray"):
                    val = val.toarray()
                self.store[k] = np.zeros(inf['shape']) if val is None else np.array(np.broadcast_to(np.asarray(val, dtype=float), inf['shape']))

    def __getitem__(self, k):
        return self.store[k]

    def __contains__(self, k):
        return k in self.store

    def __setitem__(self, k, v):
        arr = self.store[k]
        if hasattr(v, "toarray"):
            v = v.toarray()
        v = np.asarray(v)
        if v.ndim == 0:
            arr[...] = v
        elif self.info[k]['rows'] is None:
            arr[...] = np.atleast_2d(v).reshape(arr.shape) if v.size != 1 else v.item()
        else:
            arr[:] = v

    def dense(self, k):
        inf = self.info[k]
        arr = self.store[k]
        if inf['rows'] is None:
            return arr.reshape(inf['shape'])
        D = np.zeros(inf['shape'])
        np.add.at(D, (np.asarray(inf['rows'], dtype=int), np.asarray(inf['cols'], dtype=int)), arr)
        return D
