"""z3 / cvc5 back end for obligations the ring normaliser does not decide (sign, order, linear lemmas).
unknown / timeout is never mapped to 'holds' or to 'violated'."""
import z3


def prove(formula, timeout_ms=20000):
    """returns 'proved' | 'refuted' | 'unknown' and a model string when refuted"""
    s = z3.Solver()
    s.set("timeout", timeout_ms)
    s.add(z3.Not(formula))
    r = s.check()
    if r == z3.unsat:
        return "proved", None
    if r == z3.sat:
        return "refuted", str(s.model())
    return "unknown", None


def poly_to_z3(f, names):
    """polynomial term over variable atoms only -> z3 real expression (None if other atom kinds occur)"""
    from . import term as S
    tot = z3.RealVal(0)
    for m, c in f.p.items():
        t = z3.RealVal(str(c))
        for a, e in m:
            if S.A.kind[a] != 'var' or e < 0:
                return None
            nm = S.A.names[a]
            if nm not in names:
                names[nm] = z3.Real(nm)
            for _ in range(e):
                t = t * names[nm]
        tot = tot + t
    return tot
