"""z3 / cvc5 back end for obligations the ring normaliser does not decide (sign, order, linear lemmas).
unknown / timeout is never mapped to 'holds' or to 'violated'."""
import z3


def prove(formula, timeout_ms=20000):
    """returns 'proved' | 'refuted' | 'unknown' and a model string when refuted"""
    s = z3.Solver()
    s.set("timeout", timeout_ms)
    s.add(z3.Not(formula))
    r = s.check()
    if r == z3.unsat:
        return "proved", None
    if r == z3.sat:
        return "refuted", str(s.model())
    return "unknown", None


def poly_to_z3(f, names):
    """polynomial term over variable atoms only -> z3 real expression (None if other atom kinds occur)"""
    from . import term as S
    tot = z3.RealVal(0)
    for m, c in f.p.items():
        t = z3.RealVal(str(c))
        for a, e in m:
            if S.A.kind[a] != 'var' or e < 0:
                return None
            nm = S.A.names[a]
            if nm not in names:
                names[nm] = z3.Real(nm)
            for _ in range(e):
                t = t * names[nm]
        tot = tot + t
    return tot


def identity_query(d, max_atoms=14, max_monos=80):
    """export 'd == 0 on the admissible set' as a z3 problem: returns (solver asserting the side constraints and d != 0)
    or None when the term is outside the exported fragment / too large"""
    from . import term as S
    atoms = set()
    stack = [d.p]
    polys = [d.p]
    seen_polys = 0
    while stack:
        p = stack.pop()
        seen_polys += len(p)
        if seen_polys > 4 * max_monos:
            return None
        for m in p:
            for a, e in m:
                if a in atoms:
                    continue
                atoms.add(a)
                k = S.A.kind[a]
                info = S.A.info[a]
                if k == 'rad':
                    stack.append(info[1])
                elif k == 'inv':
                    stack.append(info)
                elif k == 'def':
                    stack.append(info.p)
                elif k == 'sin':
                    atoms.add(info)
                elif k == 'undef':
                    return None
    if len(atoms) > max_atoms or len(d.p) > max_monos:
        return None
    V = {a: z3.Real("a%d" % a) for a in atoms}
    INV = {}
    cons = []

    def mono(m, c):
        t = z3.RealVal(str(c))
        for a, e in m:
            if e > 0:
                for _ in range(e):
                    t = t * V[a]
            else:
                if a not in INV:
                    INV[a] = z3.Real("inv_a%d" % a)
                    cons.append(INV[a] * V[a] == 1)
                for _ in range(-e):
                    t = t * INV[a]
        return t

    def poly(p):
        tot = z3.RealVal(0)
        for m, c in p.items():
            tot = tot + mono(m, c)
        return tot
    for a in atoms:
        k = S.A.kind[a]
        info = S.A.info[a]
        if k == 'rad':
            kk, P = info
            r = V[a]
            pw = r
            for _ in range(kk - 1):
                pw = pw * r
            cons.append(pw == poly(P))
            if kk % 2 == 0:
                cons.append(r >= 0)
        elif k == 'sin':
            cons.append(V[a] * V[a] + V[info] * V[info] == 1)
        elif k == 'inv':
            cons.append(V[a] * poly(info) == 1)
        elif k == 'def':
            cons.append(V[a] == poly(info.p))
        elif k == 'ind':
            cons.append(z3.Or(V[a] == 0, V[a] == 1))
    dz = poly(d.p)          # may add inverse-variable constraints to cons
    s = z3.Solver()
    s.add(cons)
    s.add(dz != 0)
    return s


def second_opinion(lhs_minus_rhs, timeout_ms=3000):
    """independent back end for an identity obligation the ring normaliser discharged: 'unsat' confirms it (no point of the
    admissible set, as over-approximated by the exported side constraints, has d != 0); 'sat' would be a disagreement"""
    s = identity_query(lhs_minus_rhs)
    if s is None:
        return "skipped"
    s.set("timeout", timeout_ms)
    r = s.check()
    return "unsat" if r == z3.unsat else ("sat" if r == z3.sat else "unknown")
