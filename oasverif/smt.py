"""z3 / cvc5 back end for obligations the ring normaliser does not decide (sign, order, linear lemmas).
unknown / timeout is never mapped to 'holds' or to 'violated'."""
import z3


def prove(formula, timeout_ms=20000):
    """returns 'proved' | 'refuted' | 'unknown' and a model string when refuted"""
    s = z3.Solver()
    s.set("timeout", timeout_ms)
    s.add(z3.Not(formula))
    r = s.check()
    if r == z3.unsat:
        return "proved", None
    if r == z3.sat:
        return "refuted", str(s.model())
    return "unknown", None
