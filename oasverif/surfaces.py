"""Concrete surface dictionaries that select a *configuration* (shapes, symmetry, left/right half, options).
Mesh values matter only to the few places where the code reads them from ``options`` (Taper, left/right detection).
"""
import numpy as np


def mesh(nx, ny, symmetry=True, side="left", span=4.0, chord=1.0, sweep=0.3, dihedral=0.1, taper=0.6, camber=0.0,
         yshift=0.0, xshift=0.0, flip=False):
    """nx x ny x 3 mesh. symmetry=True: a half wing (left: y from -span/2 to 0, right: 0 to span/2);
    symmetry=False: full wing, ny nodes from -span/2 to span/2"""
    if symmetry:
        if side == "left":
            y = np.linspace(-span / 2, 0.0, ny)
        else:
            y = np.linspace(0.0, span / 2, ny)
    else:
        y = np.linspace(-span / 2, span / 2, ny)
    m = np.zeros((nx, ny, 3))
    for j in range(ny):
        eta = abs(y[j]) / (span / 2)
        c = chord * (1 - (1 - taper) * eta)
        xle = sweep * abs(y[j])
        for i in range(nx):
            xi = i / (nx - 1)
            m[i, j, 0] = xle + c * xi + xshift
            m[i, j, 1] = y[j] + yshift
            m[i, j, 2] = dihedral * abs(y[j]) + camber * xi * (1 - xi)
    if flip:
        m = m[:, ::-1, :].copy()               # the other spanwise node order (left half root first / right half tip first)
    return m


# NACA SC2-0612-like wingbox airfoil section between 10% and 60% chord (coarse, 8 points)
_UX = np.linspace(0.1, 0.6, 8)
_UY = np.array([0.0447, 0.0521, 0.0570, 0.0598, 0.0606, 0.0596, 0.0566, 0.0516])
_LY = np.array([-0.0447, -0.0527, -0.0581, -0.0611, -0.0617, -0.0594, -0.0541, -0.0459])


def surface(name="wing", nx=2, ny=3, symmetry=True, side="left", model="tube", groundplane=False,
            S_ref_type="wetted", with_viscous=True, with_wave=True, struct_weight_relief=False,
            distributed_fuel_weight=False, n_point_masses=0, ref_axis_pos=None, fem_origin=0.35, yshift=0.0,
            xshift=0.0, camber=0.0, extra=None, flip=False):
    m = mesh(nx, ny, symmetry, side, yshift=yshift, xshift=xshift, camber=camber, flip=flip)
    d = {
        "name": name,
        "symmetry": symmetry,
        "groundplane": groundplane,
        "S_ref_type": S_ref_type,
        "mesh": m,
        "CL0": 0.1,
        "CD0": 0.015,
        "k_lam": 0.05,
        "t_over_c_cp": np.array([0.12]),
        "c_max_t": 0.35,                 # not the documented default 0.303
        "with_viscous": with_viscous,
        "with_wave": with_wave,
        "fem_model_type": model,
        "E": 70.0e9,
        "G": 30.0e9,
        "yield": 200.0e6,
        "mrho": 3.0e3,
        "fem_origin": fem_origin,
        "wing_weight_ratio": 2.0,
        "struct_weight_relief": struct_weight_relief,
        "distributed_fuel_weight": distributed_fuel_weight,
        "exact_failure_constraint": False,
        "Wf_reserve": 1300.0,
        "fuel_density": 790.0,
        "twist_cp": np.zeros(2),
        "thickness_cp": np.array([0.1, 0.2]),
    }
    if ref_axis_pos is not None:
        d["ref_axis_pos"] = ref_axis_pos
    if model == "wingbox":
        d.update({
            "data_x_upper": _UX.copy(), "data_x_lower": _UX.copy(), "data_y_upper": _UY.copy(), "data_y_lower": _LY.copy(),
            "strength_factor_for_upper_skin": 1.25,        # not the neutral value: a factor applied twice or not at all shows
            "original_wingbox_airfoil_t_over_c": 0.14,        # differs from the t/c the surface runs at: the scaling is not neutral
            "spar_thickness_cp": np.array([0.004, 0.01]),
            "skin_thickness_cp": np.array([0.005, 0.02]),
        })
        d.pop("thickness_cp", None)
        d.pop("fem_origin", None)
    if n_point_masses:
        d["n_point_masses"] = n_point_masses
    if extra:
        d.update(extra)
    return d
