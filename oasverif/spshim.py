"""Dense-object stand-in for the scipy.sparse / scipy.linalg subset used by wing_weight_loads, fem,
horseshoe_circulations and solve_matrix.  Matrix values are exact terms; the API subset modelled is
  coo_matrix((data,(rows,cols)),shape) with duplicate summation, coo_matrix(dense), csc_matrix(...), diags(v),
  A*B (matrix product), A*ndarray, scalar*A, A+B, A-B, -A, .T, .dot(v), .tolil/.tocsr/.tocoo/.tocsc/.toarray,
  A[rows, cols] fancy extraction, .row/.col/.data (stored order), ``.data = values`` in stored order.
lu_factor / lu_solve / splu(K).solve are *contract stubs*: they return fresh unknowns x constrained by op(A) x = b
and remember which matrix term was factorised (SOLVES records every call).
"""
import numpy as np
from . import term as S
from .term import RF

SOLVES = []        # records of contract-stub solves: dict(kind, A, b, x, trans)
_counter = [0]


def _stub(f):
    f._oasverif_stub = True
    return f


def _obj(a):
    if isinstance(a, M):
        return a.d
    a = np.asarray(a)
    if a.dtype == object:
        return S.lift(a)
    return S.lift(a)


class M:
    __array_priority__ = 10000
    __array_ufunc__ = None
    _oasverif_stub = True

    def __init__(self, dense, order=None):
        self.d = _obj(dense).view(S.SymArray)
        self.order = order     # list of (r, c) in stored order, for .data / .row / .col

    @property
    def shape(self):
        return self.d.shape

    @property
    def T(self):
        return M(self.d.T.copy())

    def transpose(self):
        return self.T

    def _bin(self, o, f):
        if isinstance(o, M):
            return M(f(self.d, o.d))
        raise TypeError("sparse stand-in: unsupported operand %r" % type(o))

    def __add__(self, o):
        return self._bin(o, lambda a, b: a + b)

    def __sub__(self, o):
        return self._bin(o, lambda a, b: a - b)

    def __neg__(self):
        return M(-self.d)

    def __mul__(self, o):
        if isinstance(o, M):
            return M(_mm(self.d, o.d))
        if isinstance(o, np.ndarray):
            return _mm(self.d, _obj(o)).view(S.SymArray)      # sparse * dense ndarray -> ndarray
        return M(self.d * o)                                  # scalar

    __matmul__ = __mul__

    def __rmul__(self, o):
        if isinstance(o, np.ndarray):
            return _mm(_obj(o), self.d)
        return M(self.d * o)

    def tolil(self):
        return self

    def tocsr(self):
        return self

    def tocoo(self):
        if self.order is None:
            # canonical coo order of a structural pattern: row-major over entries that are not identically zero
            order = [(int(r), int(c)) for r in range(self.d.shape[0]) for c in range(self.d.shape[1])
                     if self.d[r, c].p]
            return M(self.d, order)
        return self

    def tocsc(self):
        return self

    def toarray(self):
        return self.d

    def todense(self):
        return self.d

    def dot(self, v):
        return _mm(self.d, _obj(v)).view(S.SymArray)

    def __getitem__(self, key):
        r, c = key
        r = np.asarray(r).astype(int)
        c = np.asarray(c).astype(int)
        return M(self.d[r, c].reshape(1, -1))

    @property
    def row(self):
        return np.array([r for r, c in self.order], dtype=int)

    @property
    def col(self):
        return np.array([c for r, c in self.order], dtype=int)

    @property
    def nnz(self):
        return len(self.order)

    @property
    def data(self):
        return np.array([self.d[r, c] for r, c in self.order], dtype=object)

    @data.setter
    def data(self, vals):
        self.d = self.d.copy()
        for (r, c) in self.order:
            self.d[r, c] = RF({})
        for (r, c), v in zip(self.order, _obj(np.asarray(vals, dtype=object))):
            self.d[r, c] = self.d[r, c] + v


def _mm(a, b):
    """matrix product of object arrays skipping structural zeros"""
    a = np.asarray(a, dtype=object)
    b = np.asarray(b, dtype=object)
    vec = b.ndim == 1
    if vec:
        b = b.reshape(-1, 1)
    n, k = a.shape
    k2, m = b.shape
    assert k == k2, "matrix product shape mismatch %s %s" % (a.shape, b.shape)
    out = np.empty((n, m), dtype=object)
    zero = RF({})
    bnz = [[j for j in range(m) if b[l, j].p] for l in range(k)]
    for i in range(n):
        row = [zero] * m
        for l in range(k):
            ail = a[i, l]
            if not ail.p:
                continue
            for j in bnz[l]:
                row[j] = row[j] + ail * b[l, j]
        for j in range(m):
            out[i, j] = row[j]
    out = out.view(S.SymArray)
    return out.reshape(-1) if vec else out


def from_scipy(m):
    """convert a real scipy sparse matrix stored on a component by the real setup(), value for value"""
    coo = m.tocoo()
    order = list(zip(coo.row.tolist(), coo.col.tolist()))
    if m.format in ("csr", "csc"):
        order = None
    return M(m.toarray(), order=order)


@_stub
def diags(v, *a, **k):
    if a or k:
        raise S.OutsideFragment("diags with offsets")
    v = _obj(np.asarray(v, dtype=object))
    n = len(v)
    d = np.empty((n, n), dtype=object)
    d[...] = RF({})
    for i in range(n):
        d[i, i] = v[i]
    return M(d)


@_stub
def coo_matrix(arg, shape=None, **kw):
    if isinstance(arg, tuple):
        data, (rows, cols) = arg
        d = np.empty(shape, dtype=object)
        d[...] = RF({})
        order = []
        for v, r, c in zip(_obj(np.asarray(data, dtype=object)), rows, cols):
            d[int(r), int(c)] = d[int(r), int(c)] + v
            order.append((int(r), int(c)))
        return M(d, order)
    if isinstance(arg, M):
        return arg
    a = _obj(np.asarray(arg, dtype=object))
    if a.ndim == 1:
        a = a.reshape(1, -1)
    return M(a)


csc_matrix = _stub(lambda arg, shape=None, **kw: coo_matrix(arg, shape=shape))
csr_matrix = _stub(lambda arg, shape=None, **kw: coo_matrix(arg, shape=shape))
csc_matrix._oasverif_stub = True
csr_matrix._oasverif_stub = True


class LU:
    _oasverif_stub = True

    def __init__(self, A, kind):
        self.A = np.array(_obj(A), dtype=object).view(S.SymArray)    # snapshot of the factorised matrix term
        self.kind = kind

    def solve(self, b, trans='N'):
        return _solve(self, b, 1 if trans in ('T', 1) else 0)

    # scipy's lu_factor returns the pair (lu, piv): code may look at its parts (e.g. lu[0].shape)
    def __len__(self):
        return 2

    def __getitem__(self, i):
        return (self.A, np.arange(self.A.shape[0]))[i]

    def __iter__(self):
        return iter((self.A, np.arange(self.A.shape[0])))


def _solve(lu, b, trans):
    b = np.asarray(_obj(np.asarray(b, dtype=object)))
    _counter[0] += 1
    x = S.symarray("solve%d_x" % _counter[0], b.shape)
    SOLVES.append(dict(kind=lu.kind, A=lu.A, b=b.copy(), x=x.copy(), trans=trans))      # the caller may edit the returned array in place
    return x


@_stub
def lu_factor(a, *args, **kw):
    return LU(a, "lu_factor")


@_stub
def lu_solve(lu, b, trans=0, **kw):
    if not isinstance(lu, LU):
        raise S.OutsideFragment("lu_solve with a native factorisation during a symbolic call")
    return _solve(lu, b, trans)


@_stub
def splu(a, *args, **kw):
    return LU(a.toarray() if isinstance(a, M) else a, "splu")
