"""numpy shim bound to the module-global name ``np`` of the repository modules during a symbolic call.

Everything structural is forwarded to real numpy (which executes indexing, broadcasting, reshape, tile, repeat,
concatenate, sum, cross, dot, outer, in-place updates ... on dtype=object arrays itself).  Only what numpy cannot do
on object arrays is lifted here.  The lifted functions are the trusted part of the shim; every run cross-checks the
symbolic result numerically against the native float execution of the same real method (sx.crosscheck).
"""
import types
from fractions import Fraction
import numpy as _np
from . import term as S
from .term import RF, Angle, SymBool, OutsideFragment


def _isobj(*arrs):
    for a in arrs:
        if isinstance(a, (RF, Angle, SymBool)):
            return True
        if isinstance(a, _np.ndarray):
            if a.dtype == object:
                return True
        elif isinstance(a, (list, tuple)):
            if any(_isobj(b) for b in a):
                return True
    return False


def _elem(v):
    if isinstance(v, (RF, Angle)):
        return v
    f = S._tofrac(v)
    if f is None:
        raise OutsideFragment("cannot lift %r" % type(v))
    return RF.const(f)


def _map(x, fn, fallback):
    if not _isobj(x):
        if type(x) in (int, float) and fn is not None and SYMBOLIC_CONST[0]:
            return fn(_elem(x))
        return fallback(x)
    if isinstance(x, (RF, Angle)):
        return fn(x)
    x = _np.asarray(x, dtype=object)
    out = _np.empty(x.shape, dtype=object).view(S.SymArray)
    for idx in _np.ndindex(*x.shape):
        out[idx] = fn(_elem(x[idx]))
    return out if out.shape else out[()]


SYMBOLIC_CONST = [True]     # np.log(10), np.sqrt(2.0) of python constants become exact atoms while the shim is active


def sin(x):
    return _map(x, lambda v: S.trig(v)[0], _np.sin)


def cos(x):
    return _map(x, lambda v: S.trig(v)[1], _np.cos)


def tan(x):
    def f(v):
        s, c = S.trig(v)
        return s / c
    return _map(x, f, _np.tan)


def _no_angle(v):
    if isinstance(v, Angle):
        return v.term()
    return v


def sqrt(x):
    return _map(x, lambda v: S.root(_no_angle(v), 2), _np.sqrt)


def exp(x):
    return _map(x, lambda v: S.transc('exp', _no_angle(v)), _np.exp)


def log(x):
    return _map(x, lambda v: S.transc('log', _no_angle(v)), _np.log)


def log10(x):
    return _map(x, lambda v: S.transc('log', _no_angle(v)) / S.transc('log', RF.const(10)), _np.log10)


def arctan(x):
    # kept as Angle objects: sin/cos of them are algebraic; any other use converts to an atan atom
    if not _isobj(x):
        return _np.arctan(x)
    return _map(x, lambda v: Angle(_no_angle(v)), _np.arctan)


def arccos(x):
    if not _isobj(x):
        return _np.arccos(x)
    return _map(x, lambda v: S.transc('acos', _no_angle(v)), _np.arccos)


def abs_(x):
    return _map(x, lambda v: abs(_no_angle(v)), _np.abs) if _isobj(x) else _np.abs(x)


def power(x, n):
    if not _isobj(x, n):
        return _np.power(x, n)
    return _np.asarray(x, dtype=object).view(S.SymArray) ** n


def real(x):
    if _isobj(x):
        return x
    return _np.real(x)


def imag(x):
    if _isobj(x):
        return 0 * x
    return _np.imag(x)


def iscomplexobj(x):
    if _isobj(x):
        return False
    return _np.iscomplexobj(x)


def _indicator_array(w):
    w = _np.asarray(w, dtype=object)
    ind = _np.empty(w.shape, dtype=object).view(S.SymArray)
    for idx in _np.ndindex(*w.shape):
        v = w[idx]
        ind[idx] = v.indicator() if isinstance(v, SymBool) else RF.const(1 if v else 0)
    return ind


def divide(a, b, out=None, where=True, **kw):
    if not _isobj(a, b, where, out):
        return _np.divide(a, b, out=out, where=where, **kw)
    if where is True:
        return _np.asarray(a, dtype=object).view(S.SymArray) / _np.asarray(b, dtype=object)
    A, B, W = _np.broadcast_arrays(_np.asarray(a, dtype=object), _np.asarray(b, dtype=object), _np.asarray(where, dtype=object))
    base = _np.broadcast_to(_np.asarray(out, dtype=object), A.shape) if out is not None else None
    res = _np.empty(A.shape, dtype=object).view(S.SymArray)
    for idx in _np.ndindex(*A.shape):
        w = W[idx]
        ind = w.indicator() if isinstance(w, SymBool) else RF.const(1 if w else 0)
        b0 = _elem(base[idx]) if base is not None else RF({})
        if not ind.p:
            res[idx] = b0
            continue
        q = _elem(A[idx]) / _elem(B[idx])
        res[idx] = ind * q + (1 - ind) * b0
    return res


def where(c, *a):
    if not a:
        c = _np.asarray(c)
        if c.dtype == object:
            b = _np.empty(c.shape, dtype=bool)
            for idx in _np.ndindex(*c.shape):
                b[idx] = bool(c[idx])
            c = b
        return _np.where(c)
    if not _isobj(c):
        return _np.where(c, *a)
    ind = _indicator_array(c)
    x, y = a
    return ind * _np.asarray(x, dtype=object) + (1 - ind) * _np.asarray(y, dtype=object)


def interp(x, xp, fp, **kw):
    if not _isobj(x, xp, fp):
        return _np.interp(x, xp, fp, **kw)
    if _isobj(x) or _isobj(xp):
        # symbolic abscissae: only constant object arrays are accepted
        try:
            x = _np.array(_np.asarray(x, dtype=object), dtype=float)
            xp = _np.array(_np.asarray(xp, dtype=object), dtype=float)
        except OutsideFragment:
            raise OutsideFragment("np.interp with symbolic abscissae")
    x = _np.asarray(x, dtype=float)
    xp = _np.asarray(xp, dtype=float)
    fp = _np.asarray(fp, dtype=object)
    out = _np.empty(x.shape, dtype=object).view(S.SymArray)
    for idx in (_np.ndindex(*x.shape) if x.shape else [()]):
        v = x[idx]
        if v <= xp[0]:
            out[idx] = _elem(fp[0])
            continue
        if v >= xp[-1]:
            out[idx] = _elem(fp[-1])
            continue
        j = int(_np.searchsorted(xp, v, side='right')) - 1
        w = Fraction(repr(float(v - xp[j]))) / Fraction(repr(float(xp[j + 1] - xp[j])))
        out[idx] = _elem(fp[j]) * (1 - w) + _elem(fp[j + 1]) * w
    return out if out.shape else out[()]


def _max_flat(flat):
    """maximum of a flat list of terms.  Constants are compared directly; entries that are constant multiples c_i * P of
    one common term P are ordered by a single decision on the sign of P; otherwise arg-max path split."""
    flat = [_elem(v) for v in flat]
    if all(v.is_const() for v in flat):
        return max(flat, key=lambda v: v.cval())
    base = None
    coefs = []
    for v in flat:
        if not v.p:
            coefs.append(Fraction(0))
            continue
        c, q = S.p_normalize(v.p)
        if base is None:
            base = q
        elif q != base:
            coefs = None
            break
        coefs.append(c)
    if coefs is not None and base is not None:
        pos = bool(RF(base) > 0)
        pick = max(range(len(flat)), key=lambda i: coefs[i]) if pos else min(range(len(flat)), key=lambda i: coefs[i])
        return flat[pick]
    if not S.PATH.exploring:
        # outside path exploration no branch may be taken: the maximum stays an opaque, permutation-invariant function of
        # the candidates
        from . import helpers
        col = sorted(flat, key=S.rf_key)
        return helpers.fun_vec(helpers.NPMAX, [_np.array(col, dtype=object)])
    fkey = tuple(S.rf_key(v) for v in flat)
    for i in range(len(flat) - 1):
        if S.PATH.decide(('argmax', i, fkey), ('argmax', i, _np.array(flat, dtype=object))):
            return flat[i]
    return flat[-1]


def max_(x, axis=None, **kw):
    if not _isobj(x):
        return _np.max(x, axis=axis, **kw)
    a = _np.asarray(x, dtype=object)
    if axis is None:
        return _max_flat(a.reshape(-1))
    a = _np.moveaxis(a, axis, 0)
    out = _np.empty(a.shape[1:], dtype=object).view(S.SymArray)
    for idx in (_np.ndindex(*a.shape[1:]) if a.shape[1:] else [()]):
        col = [_elem(v) for v in a[(slice(None),) + idx]]
        if all(v.is_const() for v in col):
            out[idx] = max(col, key=lambda v: v.cval())
        else:
            # column maximum along an axis: an opaque function of the column (no path split); its value is used only
            # by components whose partials are delegated to the framework
            from . import helpers
            out[idx] = helpers.fun_vec(helpers.NPMAX, [_np.array(col, dtype=object)])
    return out if out.shape else out[()]


def min_(x, axis=None, **kw):
    if not _isobj(x):
        return _np.min(x, axis=axis, **kw)
    raise OutsideFragment("np.min of symbolic values")


def _symalloc(dtype):
    if dtype is None:
        return True
    if dtype in (float, complex, object, _np.float64, _np.complex128):
        return True
    try:
        dt = _np.dtype(dtype)
    except TypeError:
        return True
    return dt.kind in 'fcO'


def _full(shape, c):
    a = _np.empty(shape, dtype=object).view(S.SymArray)
    a[...] = RF.const(c)
    return a


def zeros(shape, dtype=None, **kw):
    return _full(shape, 0) if _symalloc(dtype) else _np.zeros(shape, dtype=dtype, **kw)


def ones(shape, dtype=None, **kw):
    return _full(shape, 1) if _symalloc(dtype) else _np.ones(shape, dtype=dtype, **kw)


def empty(shape, dtype=None, **kw):
    return _full(shape, 0) if _symalloc(dtype) else _np.empty(shape, dtype=dtype, **kw)


def full(shape, fill_value, dtype=None, **kw):
    if _symalloc(dtype):
        a = _np.empty(shape, dtype=object).view(S.SymArray)
        a[...] = _elem(fill_value)
        return a
    return _np.full(shape, fill_value, dtype=dtype, **kw)


def zeros_like(a, dtype=None, **kw):
    return _full(_np.shape(a), 0) if _symalloc(dtype) else _np.zeros(_np.shape(a), dtype=dtype)


def ones_like(a, dtype=None, **kw):
    return _full(_np.shape(a), 1) if _symalloc(dtype) else _np.ones(_np.shape(a), dtype=dtype)


def eye(n, M=None, k=0, dtype=None, **kw):
    if not _symalloc(dtype):
        return _np.eye(n, M, k, dtype=dtype, **kw)
    return S.lift(_np.eye(n, M, k))


def identity(n, dtype=None):
    return eye(n, dtype=dtype)


def array(obj, dtype=None, **kw):
    if dtype is not None and _isobj(obj) and _np.dtype(dtype).kind in 'fc':
        return _np.array(obj, dtype=object, **{k: v for k, v in kw.items() if k != 'dtype'}).view(S.SymArray)
    r = _np.array(obj, dtype=dtype, **kw)
    if r.dtype == object:
        r = r.view(S.SymArray)
    return r


def asarray(obj, dtype=None, **kw):
    if dtype is not None and _isobj(obj) and _np.dtype(dtype).kind in 'fc':
        return _np.asarray(obj, dtype=object).view(S.SymArray)
    return _np.asarray(obj, dtype=dtype, **kw)


def einsum(subs, *ops, **kw):
    if not _isobj(*ops):
        return _np.einsum(subs, *ops, **kw)
    ops = [_np.asarray(o) for o in ops]
    subs = subs.replace(" ", "")
    if "->" in subs:
        lhs, rhs = subs.split("->")
    else:
        lhs = subs
        rhs = None
    ins = lhs.split(",")
    ell = 0
    for s, o in zip(ins, ops):
        if "..." in s:
            ell = max(ell, o.ndim - (len(s) - 3))
    ELL = "ABCDEFGH"[:ell]
    ins2 = []
    for s, o in zip(ins, ops):
        if "..." in s:
            n = o.ndim - (len(s) - 3)
            s = s.replace("...", ELL[ell - n:])
        ins2.append(s)
    if rhs is None:
        allc = "".join(ins2)
        rhs = "".join(sorted(c for c in set(allc) if allc.count(c) == 1))
    else:
        rhs = rhs.replace("...", ELL)
    dims = {}
    for s, o in zip(ins2, ops):
        if len(s) != o.ndim:
            raise ValueError("einsum operand rank mismatch %s %s" % (s, o.shape))
        for c, n in zip(s, o.shape):
            if c in dims and dims[c] != n and n != 1 and dims[c] != 1:
                raise ValueError("einsum dimension mismatch")
            dims[c] = max(dims.get(c, 1), n)
    summed = [c for c in dims if c not in rhs]
    out = _np.empty([dims[c] for c in rhs], dtype=object).view(S.SymArray)
    zero = RF({})
    # pre-lift operands
    lops = []
    for o in ops:
        if o.dtype != object:
            o = S.lift(o)
        lops.append(o)
    sum_ranges = [dims[c] for c in summed]
    for oidx in (_np.ndindex(*out.shape) if out.shape else [()]):
        env = dict(zip(rhs, oidx))
        tot = zero
        for sidx in (_np.ndindex(*sum_ranges) if sum_ranges else [()]):
            env.update(zip(summed, sidx))
            term = None
            dead = False
            for s, o in zip(ins2, lops):
                v = o[tuple(env[c] if o.shape[k] != 1 else 0 for k, c in enumerate(s))]
                if not isinstance(v, RF):
                    v = _elem(v)
                if not v.p:
                    dead = True
                    break
                term = v if term is None else term * v
            if not dead and term is not None:
                tot = tot + term
        out[oidx] = tot
    return out if out.shape else out[()]


class _Linalg:
    @staticmethod
    def norm(x, axis=None, **kw):
        x = _np.asarray(x)
        if x.dtype != object:
            return _np.linalg.norm(x, axis=axis, **kw)
        return sqrt(_np.sum(x * x, axis=axis))

    @staticmethod
    def inv(x):
        if _isobj(x):
            raise OutsideFragment("np.linalg.inv of symbolic matrix")
        return _np.linalg.inv(x)

    @staticmethod
    def solve(a, b):
        if _isobj(a, b):
            raise OutsideFragment("np.linalg.solve of symbolic matrix")
        return _np.linalg.solve(a, b)

    def __getattr__(self, n):
        return getattr(_np.linalg, n)


def linspace(start, stop, num=50, endpoint=True, **kw):
    if not _isobj(start, stop):
        return _np.linspace(start, stop, num, endpoint=endpoint, **kw)
    if not endpoint or kw:
        raise OutsideFragment("np.linspace with symbolic end points and options")
    a, b = _elem(start), _elem(stop)
    out = _np.empty(num, dtype=object).view(S.SymArray)
    for k in range(num):
        out[k] = a + (b - a) * Fraction(k, num - 1) if num > 1 else a
    return out


def trapz(y, x=None, dx=1.0, axis=-1):
    if not _isobj(y, x):
        return _np.trapz(y, x=x, dx=dx, axis=axis)
    raise OutsideFragment("np.trapz of symbolic values")


def isnan(x):
    if _isobj(x):
        return _np.zeros(_np.shape(x), dtype=bool)
    return _np.isnan(x)


def count_nonzero(x, *a, **k):
    if _isobj(x):
        raise OutsideFragment("count_nonzero of symbolic values")
    return _np.count_nonzero(x, *a, **k)


def any_(x, *a, **k):
    """np.any of symbolic values: one decision (not all entries are zero)"""
    if not _isobj(x) or a or k.get("axis") is not None:
        return _np.any(x, *a, **k)
    flat = _np.asarray(x, dtype=object).reshape(-1)
    diffs = []
    for v in flat:
        if isinstance(v, S.SymBool):
            c = v.const_value()
            if c is None:
                raise OutsideFragment("np.any of undecided comparisons")
            if c:
                return True
            continue
        d = S.lift(v)
        if d.is_const():
            if d.cval() != 0:
                return True
            continue
        kd, kn = S.rf_key(d), S.rf_key(-d)
        diffs.append((kd, d) if kd <= kn else (kn, -d))
    if not diffs:
        return False
    return not S.PATH.decide(('alleq', tuple(k_ for k_, d in diffs)), ('alleq', [d for k_, d in diffs]))


def all_(x, *a, **k):
    if not _isobj(x) or a or k.get("axis") is not None:
        return _np.all(x, *a, **k)
    flat = _np.asarray(x, dtype=object).reshape(-1)
    for v in flat:
        if isinstance(v, S.SymBool):
            if not bool(v):
                return False
        else:
            d = S.lift(v)
            if d.is_const():
                if d.cval() == 0:
                    return False
            elif bool(S.SymBool('==', d)):
                return False
    return True


def sign(x):
    """np.sign of symbolic values: a path split per entry (+1 / -1; exact zero is the measure-zero boundary)"""
    if not _isobj(x) and not isinstance(x, RF):
        return _np.sign(x)
    if isinstance(x, RF):
        if x.is_const():
            c = x.cval()
            return RF.const(1 if c > 0 else (-1 if c < 0 else 0))
        return RF.const(1) if bool(x > 0) else RF.const(-1)
    a = _np.asarray(x, dtype=object)
    out = _np.empty(a.shape, dtype=object).view(S.SymArray)
    for idx in (_np.ndindex(*a.shape) if a.shape else [()]):
        out[idx] = sign(S.lift(a[idx]))
    return out if out.shape else out[()]


def array_equal(a, b, *args, **kw):
    """one decision for the whole comparison (elementwise truth tests would split into one path per element)"""
    if not (_isobj(a) or _isobj(b)):
        return _np.array_equal(a, b, *args, **kw)
    a = _np.asarray(a, dtype=object)
    b = _np.asarray(b, dtype=object)
    if a.shape != b.shape:
        return False
    diffs = []
    for x, y in zip(a.reshape(-1), b.reshape(-1)):
        d = S.lift(x) - S.lift(y)
        if d.is_const():
            if d.cval() != 0:
                return False
            continue
        # a == b and b == a are one decision
        kd, kn = S.rf_key(d), S.rf_key(-d)
        diffs.append((kd, d) if kd <= kn else (kn, -d))
    if not diffs:
        return True
    return S.PATH.decide(('alleq', tuple(k for k, d in diffs)), ('alleq', [d for k, d in diffs]))


class _Shim(types.ModuleType):
    def __getattr__(self, n):
        return getattr(_np, n)


_OVERRIDES = dict(sin=sin, cos=cos, tan=tan, sqrt=sqrt, exp=exp, log=log, log10=log10, arctan=arctan, arccos=arccos,
                  einsum=einsum, max=max_, amax=max_, min=min_, amin=min_, where=where, interp=interp, divide=divide,
                  abs=abs_, absolute=abs_, power=power, real=real, imag=imag, iscomplexobj=iscomplexobj,
                  zeros=zeros, ones=ones, empty=empty, full=full, zeros_like=zeros_like, ones_like=ones_like, eye=eye,
                  identity=identity, array=array, asarray=asarray, trapz=trapz, linspace=linspace, isnan=isnan,
                  count_nonzero=count_nonzero, array_equal=array_equal, any=any_, all=all_, sign=sign)


def make(symbolic_pi=True):
    m = _Shim("oasverif_npshim")
    for k, v in _OVERRIDES.items():
        setattr(m, k, v)
    m.linalg = _Linalg()
    m.pi = RF.var("pi") if symbolic_pi else _np.pi
    return m
