"""Helper contracts: repository helper functions that appear in component-level proofs as opaque function atoms.

A helper f(args) -> vector is proved once against its derivative helper(s) on generic symbolic arguments with the full
real bodies (contracts/helpers.py).  Inside a component-level proof the helper names in the repository modules are
rebound to stubs that return `fun` atoms keyed by the canonical form of their argument terms; the derivative helper
returns the matching `dfun` atoms, whose meaning (by the proved contract) is the partial derivative of the helper
with respect to its argument entries.  Numerical evaluation of such atoms (witness search, cross-check) calls the real
helper natively.
"""
import numpy as np
from . import term as S
from .term import RF


class Helper:
    def __init__(self, name, real, nargs, out_len, dreal=None):
        self.name = name          # atom family name
        self.real = real          # real function: real(*arrays) -> array(out_len) (or scalar when out_len == 0)
        self.nargs = nargs
        self.out_len = out_len
        self.dreal = dreal        # real derivative: dreal(*arrays) -> list over pos of arrays [out_len or 1, len(arg)]


REG = {}
FRAME = [None]      # (Q, Q^T): express the vortex-kernel atoms of this run in the frame rotated by Q (rotation lemma)
ACTIVE = {}     # real function object id -> stub, consulted by sx.patched()


def _isobj(a):
    return isinstance(a, np.ndarray) and a.dtype == object or isinstance(a, RF)


def _args_key(arrs):
    return tuple(tuple(x if isinstance(x, RF) else RF.const(S._tofrac(x)) for x in np.asarray(a, dtype=object).reshape(-1))
                 for a in arrs)


_SREF = (1, -1, 1)        # reflection about the x-z plane


def _reflect_arg(arg):
    return tuple(t if k != 1 else -t for k, t in enumerate(arg))


def _canon(h, args):
    """helpers with proved symmetry lemmas are stored under one canonical representative of their orbit:
       antisym:  f(a, b) == -f(b, a)
       reflect:  f(S a, S b) == -S f(a, b)   with S = diag(1, -1, 1)  (pseudo-vector under reflection)
    returns (canonical args, sign, swapped, reflected) with  f(args) == sign * S^reflected f(canonical args)"""
    cands = [(args, 1, False, False)]
    if getattr(h, "antisym", False) and len(args) == 2:
        cands.append(((args[1], args[0]), -1, True, False))
    if getattr(h, "reflect", False) and all(len(a) == 3 for a in args):
        for c_args, sg, sw, _ in list(cands):
            cands.append((tuple(_reflect_arg(a) for a in c_args), -sg, sw, True))
    if len(cands) == 1:
        return cands[0]
    best = None
    for c in cands:
        k = tuple(tuple(S.rf_key(t) for t in a) for a in c[0])
        if best is None or k < best[0]:
            best = (k, c)
    return best[1]


def fun_vec(h, arrs):
    args, sgn, _, refl = _canon(h, _args_key(arrs))
    n = max(h.out_len, 1)
    out = np.empty(n, dtype=object).view(S.SymArray)
    for k in range(n):
        out[k] = (sgn * (_SREF[k] if refl else 1)) * RF.atom(S.fun_atom(h.name, args, k))
    return out if h.out_len else out[0]


def dfun_mat(h, arrs, pos):
    """matrix [out_len or 1, len(arg pos)] of derivative atoms d f_k / d (arg_pos)_j"""
    args, sgn, swapped, refl = _canon(h, _args_key(arrs))
    if swapped:
        pos = 1 - pos
    n = max(h.out_len, 1)
    m = len(args[pos])
    out = np.empty((n, m), dtype=object).view(S.SymArray)
    for k in range(n):
        for j in range(m):
            f = sgn * ((_SREF[k] * _SREF[j]) if refl else 1)
            out[k, j] = f * RF.atom(S.dfun_atom(h.name, args, k, pos, j))
    return out


def fun_eval(a, env, cache, ctx):
    kind = S.A.kind[a]
    info = S.A.info[a]
    h = REG[info[0]]
    args = info[1]
    vals = [np.array([float(S.evalf(t, env, cache, ctx)) for t in arg], dtype=float) for arg in args]
    from . import sx
    with sx.unpatched():
        if kind == 'fun':
            r = np.atleast_1d(np.asarray(h.real(*vals), dtype=float)).reshape(-1)
            v = float(r[info[2]])
        else:
            comp, pos, k = info[2], info[3], info[4]
            d = h.dreal(*vals)[pos]
            v = float(np.atleast_2d(np.asarray(d, dtype=float))[comp, k])
    return ctx.mpf(v) if ctx is not None else v


S.FUN_EVAL = fun_eval


def register(h):
    REG[h.name] = h
    return h


NPMAX = register(Helper("np.max", lambda col: np.max(col), 1, 0, None))


def activate(mapping):
    """mapping: {real function object: stub}"""
    ACTIVE.clear()
    for f, stub in mapping.items():
        stub._oasverif_stub = True
        ACTIVE[id(f)] = (f, stub)


def deactivate():
    ACTIVE.clear()
    FRAME[0] = None


# --------------------------------------------------------------------------------------------- structures.utils

def structures_utils_stubs():
    import openaerostruct.structures.utils as U
    real_norm, real_unit, real_norm_d, real_unit_d = U.norm, U.unit, U.norm_d, U.unit_d
    hn = register(Helper("su.norm", lambda v: real_norm(v), 1, 0, lambda v: [np.atleast_2d(real_norm_d(v))]))
    hu = register(Helper("su.unit", lambda v: real_unit(v), 1, 3, lambda v: [real_unit_d(v)]))

    def _rot3(Q, v):
        return np.array([sum((Q[i, j] * v[j] for j in range(3)), RF({})) for i in range(3)], dtype=object)

    def norm(vec, axis=None):
        if axis is None and _isobj(vec) and np.ndim(vec) == 1:
            if FRAME[0] is not None and len(vec) == 3:
                # rotation lemma (helper.structures_utils): norm(R v) == norm(v); the caller works in the frame rotated by
                # R = FRAME[0][0]: the atom is expressed in the unrotated frame
                return fun_vec(hn, [_rot3(FRAME[0][1], np.asarray(vec, dtype=object))])
            return fun_vec(hn, [vec])
        return real_norm(vec, axis=axis)

    def unit(vec):
        if _isobj(vec) and np.ndim(vec) == 1 and len(vec) == 3:
            if FRAME[0] is not None:
                # unit(R v) == R unit(v)
                Q, Qt = FRAME[0]
                return _rot3(Q, fun_vec(hu, [_rot3(Qt, np.asarray(vec, dtype=object))])).view(S.SymArray)
            return fun_vec(hu, [vec])
        return real_unit(vec)

    def norm_d(vec):
        if _isobj(vec) and np.ndim(vec) == 1:
            return dfun_mat(hn, [vec], 0)[0]
        return real_norm_d(vec)

    def unit_d(vec):
        if _isobj(vec) and np.ndim(vec) == 1 and len(vec) == 3:
            return dfun_mat(hu, [vec], 0)
        return real_unit_d(vec)

    return {real_norm: norm, real_unit: unit, real_norm_d: norm_d, real_unit_d: unit_d}


# --------------------------------------------------------------------------------------------- aerodynamics.eval_mtx

def _lead_broadcast(*arrs):
    """broadcast arrays [..., k] (possibly different trailing shapes) over their leading '...' dimensions"""
    arrs = [np.asarray(a) for a in arrs]
    return arrs


def eval_mtx_stubs():
    import openaerostruct.aerodynamics.eval_mtx as E
    fv, fv1, fv2 = E._compute_finite_vortex, E._compute_finite_vortex_deriv1, E._compute_finite_vortex_deriv2
    sv, svd = E._compute_semi_infinite_vortex, E._compute_semi_infinite_vortex_deriv
    I3 = np.eye(3)
    hfv = register(Helper("em.finite_vortex", lambda r1, r2: fv(r1, r2), 2, 3,
                          lambda r1, r2: [fv1(r1, r2, I3), fv2(r1, r2, I3)]))
    hfv.antisym = True           # lemma proved in helper.eval_mtx: f(r1, r2) == -f(r2, r1)
    hfv.reflect = True           # lemma proved in helper.eval_mtx: f(S r1, S r2) == -S f(r1, r2)
    hsv = register(Helper("em.semi_infinite_vortex", lambda u, r: sv(u, r), 2, 3,
                          lambda u, r: [np.full((3, 3), np.nan), svd(u, r, I3)]))

    hsv.reflect = True           # lemma proved in helper.eval_mtx: semi(S u, S r) == -S semi(u, r)

    def _rot(Q, v):
        return np.array([sum((Q[i, j] * v[j] for j in range(3)), RF({})) for i in range(3)], dtype=object)

    def _apply(h, a, b):
        a = np.asarray(a)
        b = np.asarray(b)
        lead = np.broadcast_shapes(a.shape[:-1], b.shape[:-1])
        a = np.broadcast_to(a, lead + (3,))
        b = np.broadcast_to(b, lead + (3,))
        out = np.empty(lead + (3,), dtype=object).view(S.SymArray)
        for idx in np.ndindex(*lead):
            if FRAME[0] is not None:
                # rotation lemma (proved by c09.kernel_rotation): f(Q a, Q b) == Q f(a, b) -- express the atom in the
                # rotated frame: f(a, b) = Q^T f(Q a, Q b)
                Q, Qt = FRAME[0]
                out[idx] = _rot(Qt, fun_vec(h, [_rot(Q, a[idx]), _rot(Q, b[idx])]))
            else:
                out[idx] = fun_vec(h, [a[idx], b[idx]])
        return out

    def _apply_d(h, a, b, deriv, pos):
        a = np.asarray(a)
        b = np.asarray(b)
        deriv = np.asarray(deriv)
        lead = np.broadcast_shapes(a.shape[:-1], b.shape[:-1], deriv.shape[:-2])
        a = np.broadcast_to(a, lead + (3,))
        b = np.broadcast_to(b, lead + (3,))
        deriv = np.broadcast_to(deriv, lead + (3, 3))
        out = np.empty(lead + (3, 3), dtype=object).view(S.SymArray)
        for idx in np.ndindex(*lead):
            J = dfun_mat(h, [a[idx], b[idx]], pos)           # [i, m] = d f_i / d arg_m
            D = deriv[idx]
            for i in range(3):
                for j in range(3):
                    t = RF({})
                    for m in range(3):
                        dm = D[m, j]
                        if isinstance(dm, RF):
                            if dm.p:
                                t = t + J[i, m] * dm
                        elif dm != 0:
                            t = t + J[i, m] * dm
                    out[idx + (i, j)] = t
        return out

    def s_fv(r1, r2):
        if _isobj(r1) or _isobj(r2):
            return _apply(hfv, r1, r2)
        return fv(r1, r2)

    def s_fv1(r1, r2, d):
        if _isobj(r1) or _isobj(r2) or _isobj(d):
            return _apply_d(hfv, r1, r2, d, 0)
        return fv1(r1, r2, d)

    def s_fv2(r1, r2, d):
        if _isobj(r1) or _isobj(r2) or _isobj(d):
            return _apply_d(hfv, r1, r2, d, 1)
        return fv2(r1, r2, d)

    def s_sv(u, r):
        if _isobj(u) or _isobj(r):
            return _apply(hsv, u, r)
        return sv(u, r)

    def s_svd(u, r, d):
        if _isobj(u) or _isobj(r) or _isobj(d):
            return _apply_d(hsv, u, r, d, 1)
        return svd(u, r, d)

    return {fv: s_fv, fv1: s_fv1, fv2: s_fv2, sv: s_sv, svd: s_svd}


# --------------------------------------------------------------------------------------------- common.atmos_comp

def atmos_stubs():
    """the five Akima table interpolants and their scipy-provided derivatives (external contract, assumed):
    X_interp_deriv(h) == d X_interp(h) / d h"""
    import openaerostruct.common.atmos_comp as A
    out = {}
    for q in ("T", "P", "rho", "a", "viscosity"):
        f = getattr(A, q + "_interp")
        df = getattr(A, q + "_interp_deriv")
        h = register(Helper("atm." + q, (lambda f: lambda x: np.atleast_1d(f(x)).reshape(-1)[:1])(f), 1, 0,
                            (lambda df: lambda x: [np.atleast_2d(np.atleast_1d(df(x)).reshape(-1)[:1])])(df)))

        def stub(x, h=h, f=f):
            if _isobj(x):
                xs = np.asarray(x, dtype=object).reshape(-1)
                return np.array([fun_vec(h, [xs[i:i + 1]]) for i in range(len(xs))], dtype=object).view(S.SymArray).reshape(np.shape(x))
            return f(x)

        def dstub(x, h=h, df=df):
            if _isobj(x):
                xs = np.asarray(x, dtype=object).reshape(-1)
                return np.array([dfun_mat(h, [xs[i:i + 1]], 0)[0, 0] for i in range(len(xs))], dtype=object).view(S.SymArray).reshape(np.shape(x))
            return df(x)
        out[f] = stub
        out[df] = dstub
    return out
