"""Helper contracts: repository helper functions that appear in component-level proofs as opaque function atoms.

A helper f(args) -> vector is proved once against its derivative helper(s) on generic symbolic arguments with the full
real bodies (contracts/helpers.py).  Inside a component-level proof the helper names in the repository modules are
rebound to stubs that return `fun` atoms keyed by the canonical form of their argument terms; the derivative helper
returns the matching `dfun` atoms, whose meaning (by the proved contract) is the partial derivative of the helper
with respect to its argument entries.  Numerical evaluation of such atoms (witness search, cross-check) calls the real
helper natively.
"""
import numpy as np
from . import term as S
from .term import RF


class Helper:
    def __init__(self, name, real, nargs, out_len, dreal=None):
        self.name = name          # atom family name
        self.real = real          # real function: real(*arrays) -> array(out_len) (or scalar when out_len == 0)
        self.nargs = nargs
        self.out_len = out_len
        self.dreal = dreal        # real derivative: dreal(*arrays) -> list over pos of arrays [out_len or 1, len(arg)]


REG = {}
ACTIVE = {}     # real function object id -> stub, consulted by sx.patched()


def _isobj(a):
    return isinstance(a, np.ndarray) and a.dtype == object or isinstance(a, RF)


def _args_key(arrs):
    return tuple(tuple(x if isinstance(x, RF) else RF.const(S._tofrac(x)) for x in np.asarray(a, dtype=object).reshape(-1))
                 for a in arrs)


def fun_vec(h, arrs):
    args = _args_key(arrs)
    n = max(h.out_len, 1)
    out = np.empty(n, dtype=object).view(S.SymArray)
    for k in range(n):
        out[k] = RF.atom(S.fun_atom(h.name, args, k))
    return out if h.out_len else out[0]


def dfun_mat(h, arrs, pos):
    """matrix [out_len or 1, len(arg pos)] of derivative atoms"""
    args = _args_key(arrs)
    n = max(h.out_len, 1)
    m = len(args[pos])
    out = np.empty((n, m), dtype=object).view(S.SymArray)
    for k in range(n):
        for j in range(m):
            out[k, j] = RF.atom(S.dfun_atom(h.name, args, k, pos, j))
    return out


def fun_eval(a, env, cache, ctx):
    kind = S.A.kind[a]
    info = S.A.info[a]
    h = REG[info[0]]
    args = info[1]
    vals = [np.array([float(S.evalf(t, env, cache, ctx)) for t in arg], dtype=float) for arg in args]
    if kind == 'fun':
        r = np.atleast_1d(np.asarray(h.real(*vals), dtype=float)).reshape(-1)
        v = float(r[info[2]])
    else:
        comp, pos, k = info[2], info[3], info[4]
        d = h.dreal(*vals)[pos]
        v = float(np.atleast_2d(np.asarray(d, dtype=float))[comp, k])
    return ctx.mpf(v) if ctx is not None else v


S.FUN_EVAL = fun_eval


def register(h):
    REG[h.name] = h
    return h


def activate(mapping):
    """mapping: {real function object: stub}"""
    ACTIVE.clear()
    for f, stub in mapping.items():
        stub._oasverif_stub = True
        ACTIVE[id(f)] = (f, stub)


def deactivate():
    ACTIVE.clear()


# --------------------------------------------------------------------------------------------- structures.utils

def structures_utils_stubs():
    import openaerostruct.structures.utils as U
    real_norm, real_unit, real_norm_d, real_unit_d = U.norm, U.unit, U.norm_d, U.unit_d
    hn = register(Helper("su.norm", lambda v: real_norm(v), 1, 0, lambda v: [np.atleast_2d(real_norm_d(v))]))
    hu = register(Helper("su.unit", lambda v: real_unit(v), 1, 3, lambda v: [real_unit_d(v)]))

    def norm(vec, axis=None):
        if axis is None and _isobj(vec) and np.ndim(vec) == 1:
            return fun_vec(hn, [vec])
        return real_norm(vec, axis=axis)

    def unit(vec):
        if _isobj(vec) and np.ndim(vec) == 1 and len(vec) == 3:
            return fun_vec(hu, [vec])
        return real_unit(vec)

    def norm_d(vec):
        if _isobj(vec) and np.ndim(vec) == 1:
            return dfun_mat(hn, [vec], 0)[0]
        return real_norm_d(vec)

    def unit_d(vec):
        if _isobj(vec) and np.ndim(vec) == 1 and len(vec) == 3:
            return dfun_mat(hu, [vec], 0)
        return real_unit_d(vec)

    return {real_norm: norm, real_unit: unit, real_norm_d: norm_d, real_unit_d: unit_d}
