"""Verification conditions generated from the Python AST of the pure index helpers of openaerostruct/mphys/utils.py and
discharged by z3 for an *unbounded* number of surfaces of unbounded sizes (loop invariants supplied by the contract).

Fragment (anything else raises OutsideFragment -> exit 3):
    name = <int expr>                      int expressions: literals, names, + - * //, mesh.size, nx * ny, ...
    name = {}                               an (initially empty) map from surface index to a value
    for surface in surfaces: <body>         the single loop over the argument list
    surf_name = surface["name"]             (names are treated as distinct keys: one map entry per surface)
    mesh = surface["mesh"]
    nx, ny, _ = mesh.shape
    v = np.arange(<int expr>) + <int expr>  an index range  [start, start + length)
    m[surf_name] = v.reshape(a, b[, c])     records the range; generates the obligation  a*b*c == length
    name += <int expr>
    return name

Semantics assumed: Python ints are mathematical integers; surface i has a mesh of shape (nx_i, ny_i, 3) with
nx_i, ny_i >= 1 (mesh.size == 3 nx_i ny_i); surface names are pairwise distinct.  Loops are handled by the classical rule:
invariant holds initially, is preserved by one symbolic execution of the body at an arbitrary index i, and implies the
postcondition at exit.  Sums over a symbolic range are an uninterpreted prefix-sum function with its recursion axiom
instantiated at i; its monotonicity (needed for disjointness) is proved by a separate induction obligation.
"""
import ast
import inspect
import textwrap
import z3

from .term import OutsideFragment


class Range:
    """the integer array  arange(length) + start  (optionally reshaped)"""
    def __init__(self, start, length, shape=None):
        self.start, self.length, self.shape = start, length, shape


class LoopVC:
    def __init__(self, fn):
        self.fn = fn
        src = textwrap.dedent(inspect.getsource(fn))
        tree = ast.parse(src)
        self.fdef = tree.body[0]
        if not isinstance(self.fdef, ast.FunctionDef) or len(self.fdef.args.args) != 1:
            raise OutsideFragment("astvc: expected a one-argument function")
        self.arg = self.fdef.args.args[0].arg
        body = [s for s in self.fdef.body if not (isinstance(s, ast.Expr) and isinstance(getattr(s, "value", None), ast.Constant))]
        self.pre, self.loop, self.post = [], None, []
        for s in body:
            if isinstance(s, ast.For):
                if self.loop is not None:
                    raise OutsideFragment("astvc: more than one loop")
                self.loop = s
            elif self.loop is None:
                self.pre.append(s)
            else:
                self.post.append(s)
        if self.loop is None or not (isinstance(self.loop.iter, ast.Name) and self.loop.iter.id == self.arg) or self.loop.orelse:
            raise OutsideFragment("astvc: expected 'for surface in %s:'" % self.arg)
        self.loopvar = self.loop.target.id
        # symbolic model of the argument
        self.N = z3.Int("N")
        self.nx = z3.Function("nx", z3.IntSort(), z3.IntSort())
        self.ny = z3.Function("ny", z3.IntSort(), z3.IntSort())
        self.obligations = []           # (name, z3 formula) side obligations generated while executing the body

    # ---- expression evaluation
    def ev(self, e, st, i):
        if isinstance(e, ast.Constant) and isinstance(e.value, int):
            return z3.IntVal(e.value)
        if isinstance(e, ast.Name):
            if e.id not in st:
                raise OutsideFragment("astvc: unknown name %s" % e.id)
            return st[e.id]
        if isinstance(e, ast.BinOp):
            a, b = self.ev(e.left, st, i), self.ev(e.right, st, i)
            if isinstance(a, Range) or isinstance(b, Range):
                if isinstance(e.op, ast.Add):
                    r, k = (a, b) if isinstance(a, Range) else (b, a)
                    return Range(r.start + k, r.length, r.shape)
                raise OutsideFragment("astvc: unsupported operation on an index range")
            if isinstance(e.op, ast.Add):
                return a + b
            if isinstance(e.op, ast.Sub):
                return a - b
            if isinstance(e.op, ast.Mult):
                return a * b
            if isinstance(e.op, ast.FloorDiv):
                return a / b
            raise OutsideFragment("astvc: operator %s" % type(e.op).__name__)
        if isinstance(e, ast.Attribute) and self._is_mesh(e.value, st, i):
            if e.attr == "size":
                return 3 * self.nx(i) * self.ny(i)
        if isinstance(e, ast.Call):
            f = e.func
            if isinstance(f, ast.Attribute) and isinstance(f.value, ast.Name) and f.value.id == "np" and f.attr == "arange" and len(e.args) == 1:
                return Range(z3.IntVal(0), self.ev(e.args[0], st, i))
            if isinstance(f, ast.Attribute) and f.attr == "reshape":
                r = self.ev(f.value, st, i)
                if not isinstance(r, Range):
                    raise OutsideFragment("astvc: reshape of a non-range")
                dims = [self.ev(a, st, i) for a in e.args]
                prod = dims[0]
                for d in dims[1:]:
                    prod = prod * d
                self.obligations.append(("reshape keeps the number of entries", prod == r.length))
                return Range(r.start, r.length, tuple(dims))
        raise OutsideFragment("astvc: expression %s" % ast.dump(e)[:80])

    def _is_mesh(self, node, st, i):
        if isinstance(node, ast.Name):
            return st.get(node.id) == ("mesh", i)
        return (isinstance(node, ast.Subscript) and isinstance(node.value, ast.Name) and node.value.id == self.loopvar
                and isinstance(node.slice, ast.Constant) and node.slice.value == "mesh")

    def exec_stmt(self, s, st, i, maps):
        if isinstance(s, ast.Assign) and len(s.targets) == 1:
            t = s.targets[0]
            if isinstance(t, ast.Name):
                v = s.value
                if isinstance(v, ast.Dict) and not v.keys:
                    maps[t.id] = {}
                    st[t.id] = ("map", t.id)
                    return
                if isinstance(v, ast.Subscript) and isinstance(v.value, ast.Name) and v.value.id == self.loopvar and isinstance(v.slice, ast.Constant):
                    key = v.slice.value
                    st[t.id] = ("mesh", i) if key == "mesh" else ("name", i)
                    return
                if isinstance(v, ast.Attribute) and v.attr == "shape" and self._is_mesh(v.value, st, i):
                    st[t.id] = ("shape", i)
                    return
                st[t.id] = self.ev(v, st, i)
                return
            if isinstance(t, ast.Tuple) and isinstance(s.value, ast.Attribute) and s.value.attr == "shape" \
                    and self._is_mesh(s.value.value, st, i) and len(t.elts) == 3:
                vals = [self.nx(i), self.ny(i), z3.IntVal(3)]
                for el, val in zip(t.elts, vals):
                    st[el.id] = val
                return
            if isinstance(t, ast.Subscript) and isinstance(t.value, ast.Name) and st.get(t.value.id, (None,))[0] == "map":
                key = st.get(getattr(t.slice, "id", None))
                if key != ("name", i):
                    raise OutsideFragment("astvc: map key is not the surface name")
                maps[t.value.id]["current"] = self.ev(s.value, st, i)
                return
        if isinstance(s, ast.AugAssign) and isinstance(s.target, ast.Name) and isinstance(s.op, ast.Add):
            st[s.target.id] = st[s.target.id] + self.ev(s.value, st, i)
            return
        raise OutsideFragment("astvc: statement %s" % ast.dump(s)[:100])


def prove_all(obls, timeout_ms=20000):
    out = []
    for name, hyp, goal in obls:
        s = z3.Solver()
        s.set("timeout", timeout_ms)
        s.add(hyp)
        s.add(z3.Not(goal))
        r = s.check()
        out.append((name, "proved" if r == z3.unsat else ("refuted" if r == z3.sat else "unknown"), str(s.model()) if r == z3.sat else None))
    return out


def verify_index_function(fn, kind):
    """kind: 'count'  -> returns sum_k nx_k ny_k
             'blocks' -> returns {name_k: arange(size_k) + prefix(k) reshaped}, size_k = per_node * nx_k ny_k
       returns a list of (obligation name, verdict, model)"""
    vc = LoopVC(fn)
    N, nx, ny = vc.N, vc.nx, vc.ny
    i = z3.Int("i")
    j = z3.Int("j")
    size = z3.Function("size", z3.IntSort(), z3.IntSort())          # what the loop adds for surface k
    prefix = z3.Function("prefix", z3.IntSort(), z3.IntSort())
    wf = [N >= 0, z3.ForAll([j], z3.Implies(z3.And(j >= 0, j < N), z3.And(nx(j) >= 1, ny(j) >= 1)))]
    # ---- initial state
    st, maps = {}, {}
    for s in vc.pre:
        vc.exec_stmt(s, st, None, maps)
    counters = [k for k, v in st.items() if z3.is_expr(v)]
    if len(counters) != 1:
        raise OutsideFragment("astvc: expected exactly one integer accumulator, found %s" % counters)
    acc = counters[0]
    obls = []
    obls.append(("initially the accumulator is 0 (invariant holds at i = 0)", wf, st[acc] == 0))
    # ---- one symbolic execution of the body at an arbitrary index i, from a state satisfying the invariant
    st2 = dict(st)
    st2[acc] = prefix(i)
    vc.obligations = []
    maps2 = {k: {} for k in maps}
    for s in vc.loop.body:
        vc.exec_stmt(s, st2, i, maps2)
    hyp_i = wf + [i >= 0, i < N]
    added = st2[acc] - prefix(i)
    per = z3.Int("per_node")
    if kind == "count":
        obls.append(("the loop adds nx_i * ny_i nodes for surface i", hyp_i, added == nx(i) * ny(i)))
        ax = [per == 1]
    else:
        # what is added per surface must be a fixed multiple of the node count: 3 (coordinates) or 1 (nodes)
        obls.append(("the loop advances the offset by a fixed multiple (1 or 3) of nx_i * ny_i",
                     hyp_i, z3.Or(added == nx(i) * ny(i), added == 3 * nx(i) * ny(i))))
        (mname, entry), = [(k, v) for k, v in maps2.items()]
        cur = entry.get("current")
        if not isinstance(cur, Range):
            raise OutsideFragment("astvc: the loop does not store an index range")
        obls.append(("the block stored for surface i starts at the current offset", hyp_i, cur.start == prefix(i)))
        obls.append(("the block stored for surface i has exactly as many entries as the offset advances", hyp_i, cur.length == added))
        obls.append(("the offset is advanced only after the block is stored (block start is the offset *before* the update)", hyp_i, cur.start + cur.length == st2[acc]))
        if cur.shape is not None:
            obls.append(("the block is reshaped to (nx_i, ny_i[, 3])", hyp_i, z3.And(cur.shape[0] == nx(i), cur.shape[1] == ny(i))))
        for nm, f in vc.obligations:
            obls.append((nm, hyp_i, f))
    # ---- consequences for an arbitrary list (the loop invariant acc == prefix(i), prefix(i+1) == prefix(i) + size(i))
    rec = z3.ForAll([j], z3.Implies(z3.And(j >= 0, j < N), z3.And(prefix(j + 1) == prefix(j) + size(j), size(j) >= 1)))
    base = [prefix(0) == 0, rec] + wf
    a, b = z3.Int("a"), z3.Int("b")
    # monotonicity by induction on b: P(b) := a <= b -> prefix(a) <= prefix(b)
    obls.append(("prefix sums are monotone: induction step  (a <= b < N and prefix(a) <= prefix(b)) -> prefix(a) <= prefix(b+1)",
                 base + [a >= 0, a <= b, b < N, prefix(a) <= prefix(b)], prefix(a) <= prefix(b + 1)))
    mono = z3.ForAll([a, b], z3.Implies(z3.And(a >= 0, a <= b, b <= N), prefix(a) <= prefix(b)))
    obls.append(("blocks of different surfaces are disjoint: a < b -> end(a) <= start(b)  (from monotonicity)",
                 base + [mono, a >= 0, a < b, b < N], prefix(a) + size(a) <= prefix(b)))
    obls.append(("every block lies inside [0, total):  0 <= start(a) and end(a) <= prefix(N)",
                 base + [mono, a >= 0, a < N], z3.And(prefix(a) >= 0, prefix(a) + size(a) <= prefix(N))))
    # coverage: every index below the total lies in some block -- by induction on the number of surfaces:
    # Cov(n) := forall x in [0, prefix(n)) exists k < n with start(k) <= x < end(k);  step: x in [prefix(n), prefix(n+1)) is in block n
    x = z3.Int("x")
    obls.append(("the blocks cover [0, total) without gaps: induction step  prefix(n) <= x < prefix(n+1) -> x is in block n",
                 base + [a >= 0, a < N, x >= prefix(a), x < prefix(a + 1)], z3.And(prefix(a) <= x, x < prefix(a) + size(a))))
    # the return value
    rets = [s for s in vc.post if isinstance(s, ast.Return)]
    if len(rets) != 1 or not isinstance(rets[0].value, ast.Name):
        raise OutsideFragment("astvc: expected 'return <name>'")
    want = acc if kind == "count" else list(maps)[0]
    obls.append(("the function returns the accumulated %s" % ("count" if kind == "count" else "map of blocks"), [], z3.BoolVal(rets[0].value.id == want)))
    return prove_all(obls)
