"""Job registry, parallel execution, native replay of refuted obligations, evidence, exit codes.

Exit codes of a check: 0 every obligation discharged (known findings printed); 1 a violation not listed in
KNOWN_FINDINGS.json; 2 undecided; 3 checker problem (OutsideFragment, vacuity, cross-check mismatch).  2 and 3 print no
VIOLATION line.
"""
import fnmatch
import importlib
import json
import multiprocessing as mp
import os
import sys
import time
import traceback

HERE = os.path.dirname(os.path.dirname(os.path.abspath(__file__)))
JOBS = {}
PROPS = ["C%02d" % i for i in range(1, 21)]
CONTRACT_MODULES = []


class Job:
    def __init__(self, name, props, fn, cfgs, tier, ranges, cost):
        self.name = name
        self.props = props
        self.fn = fn
        self.cfgs = cfgs
        self.tier = tier
        self.ranges = ranges
        self.cost = cost


def job(name, props, cfgs=None, tier="quick", ranges=(), cost=1.0):
    """register a contract: fn(env, **cfg) is executed once per configuration in cfgs.
    cfgs: list of dicts; a cfg may carry '_tier': 'thorough' to be skipped in the quick tier."""
    def deco(fn):
        JOBS[name] = Job(name, tuple(props), fn, cfgs or [{}], tier, tuple(ranges), cost)
        return fn
    return deco


def load_contracts():
    d = os.path.join(HERE, "oasverif", "contracts")
    for f in sorted(os.listdir(d)):
        if f.endswith(".py") and not f.startswith("_"):
            importlib.import_module("oasverif.contracts." + f[:-3])


def cfg_label(cfg):
    return ",".join("%s=%s" % (k, v) for k, v in cfg.items() if not k.startswith("_"))


def _innermost_repo_frame(e, repo):
    import traceback as _tb
    frames = _tb.extract_tb(e.__traceback__)
    root = os.path.realpath(repo) + os.sep
    last = None
    for i, f in enumerate(frames):
        if os.path.realpath(f.filename).startswith(root):
            last = i
    if last is None:
        return None
    # after the repository's frame only library code executing on its behalf (numpy, the shim) may follow
    for f in frames[last + 1:]:
        if os.sep + "contracts" + os.sep in f.filename:
            return None
    f = frames[last]
    return "%s:%d %s" % (os.path.relpath(os.path.realpath(f.filename), root), f.lineno, f.name)


def _repo_exception(e, jb, kw, seed, core, _sx):
    where = _innermost_repo_frame(e, _sx.REPO)
    if where is None:
        return None
    env2 = core.Env("native", witness={}, seed=seed, ranges=jb.ranges)
    try:
        jb.fn(env2, **kw)
        return None
    except Exception as e2:
        where2 = _innermost_repo_frame(e2, _sx.REPO)
        if where2 is None or type(e2).__name__ != type(e).__name__:
            return None
    msg = "%s: %s (at %s)" % (type(e).__name__, str(e)[:200], where)
    return dict(prop=",".join(jb.props), name="the repository code completes on the admissible inputs of the contract (no exception)",
                kind="concrete", n=1, ok=0, undecided=[], secs=0.0, path=None, sample=None,
                refuted=[dict(entry=None, witness={}, reason="raised " + msg, native="the native run of the contract raises the same exception at %s" % where2,
                              confirmed=True)])


def _finish_pass(env, jb, kw, seed, want_props, res, agg, seen_names, S, core, last):
    """collect one pass of a job: obligations (first occurrence of a name wins), native replay of the refuted ones, the
    shim cross-check"""
    agg["functions"] |= set(env.functions)
    agg["notes"] += [n for n in env.notes if n not in agg["notes"]]
    agg["assumptions"] |= set(env.assumptions)
    agg["defined"] += len(S.DEFINED)
    agg["roundoff"] += env.roundoff
    for k, v in env.z3_stats.items():
        agg["z3"][k] = agg["z3"].get(k, 0) + v
    agg["atoms"] = max(agg["atoms"], len(S.A.names))
    agg["iv_boxes"] = agg.get("iv_boxes", 0) + getattr(env, "iv_boxes", 0)
    if env.z3_disagreements:
        raise RuntimeError("back-end disagreement: z3 finds a point where a discharged identity fails: %s" % env.z3_disagreements[:3])
    if S.TINY_SEEN:
        note = "float constants below 1e-40 treated as 0: %s" % sorted(set(S.TINY_SEEN))
        if note not in agg["notes"]:
            agg["notes"].append(note)
    if S.PATH.unexplored:
        # a decision first met in the body of an env.explore loop: only one side was executed
        raise RuntimeError("branch on a symbolic value outside path exploration (%d), e.g. %s" % (
            len(S.PATH.unexplored), repr(S.PATH.unexplored[0])[:200]))
    # native replay of refuted obligations against the real code
    seen_before = set(seen_names)           # only obligations of earlier passes are duplicates (a pass may reuse a name)
    for o in env.obls:
        if o.name in seen_before:
            continue
        seen_names.add(o.name)
        if want_props and not (set(o.prop.split(",")) & set(want_props)):
            continue
        for r in o.refuted[:2]:
            if r.get("entry", 0) is None and "reason" in r and "witness" not in r:
                continue
            try:
                env2 = core.Env("native", witness=r.get("witness") or {}, seed=seed, ranges=jb.ranges)
                jb.fn(env2, **kw)
                num = env2.numeric.get(o.name.split(' @path(')[0])
                if num is None:
                    # a lemma of the symbolic proof has no native counterpart: the failing input is confirmed when any
                    # native clause of the same contract fails at the witness
                    r["native"] = "obligation not reached natively"
                    import numpy as _np
                    for nm2, (d2, s2, L2, R2) in env2.numeric.items():
                        ex = _np.asarray(d2, dtype=float) - core.NATIVE_TOL * (1.0 + _np.asarray(s2, dtype=float))
                        if ex.size and float(_np.max(ex)) > 0:
                            r["native"] = "confirmed by the native clause: %s" % nm2
                            r["native_diff"] = float(_np.max(_np.asarray(d2, dtype=float)))
                            r["confirmed"] = True
                            break
                    continue
                diff, sc, L, R = num
                idx = tuple(r["entry"]) if r.get("entry") is not None else ()
                try:
                    dv, sv, lv, rv = float(diff[idx]), float(sc[idx]), float(L[idx]), float(R[idx])
                except (IndexError, TypeError):
                    # the native clause has another layout than the symbolic one: the entry that fails most clearly
                    import numpy as _np
                    ex = _np.asarray(diff, dtype=float) - core.NATIVE_TOL * (1.0 + _np.asarray(sc, dtype=float))
                    k = _np.unravel_index(_np.argmax(ex), ex.shape) if ex.shape else ()
                    dv, sv, lv, rv = float(_np.asarray(diff)[k]), float(_np.asarray(sc)[k]), float("nan"), float("nan")
                r["native_lhs"] = lv
                r["native_rhs"] = rv
                r["native_diff"] = dv
                big = max(abs(lv), abs(rv)) if (lv == lv and rv == rv) else 0.0
                # absolute criterion, or a clear relative one for quantities that are small in absolute terms (e.g. a
                # derivative with respect to a Reynolds number of 1e6)
                r["confirmed"] = bool(dv > core.NATIVE_TOL * (1.0 + sv)) or bool(big > 1e-12 and dv > 1e-3 * big)
            except Exception as e:           # replay problems never create or hide a violation
                r["native"] = "replay failed: %s: %s" % (type(e).__name__, e)
        res["obls"].append(o.asdict())
    # shim / engine cross-check at a random admissible point (every pass: different branches of the real code)
    try:
        xc = core.crosscheck(env, jb, kw, seed)
    except Exception as e:
        xc = dict(ok=False, error="%s: %s" % (type(e).__name__, e))
    old = res.get("crosscheck")
    if old is None or (old.get("ok", True) and not xc.get("ok", True)):
        if old is not None and xc.get("ok", True):
            xc["checked"] = xc.get("checked", 0) + old.get("checked", 0)
        res["crosscheck"] = xc
    elif old.get("ok", True):
        old["checked"] = old.get("checked", 0) + xc.get("checked", 0)
        old["worst_rel_err"] = max(old.get("worst_rel_err", 0.0), xc.get("worst_rel_err", 0.0))


class JobTimeout(BaseException):
    pass


def run_one(args):
    """worker: one (job, configuration)"""
    jobname, ci, seed, want_props = args
    from . import core, term as S, spshim
    t0 = time.time()
    jb = JOBS[jobname]
    cfg = jb.cfgs[ci]
    label = "%s[%s]" % (jobname, cfg_label(cfg))
    kw = {k: v for k, v in cfg.items() if not k.startswith("_")}
    res = dict(job=label, jobname=jobname, cfg=kw, obls=[], error=None, secs=0.0, functions=[], notes=[],
               defined=0, crosscheck=None)
    import signal

    def _alarm(sig, frm):
        # not an Exception: the replay / cross-check wrappers that swallow ordinary exceptions must not swallow the budget
        signal.alarm(30)                     # and it fires again should anything still hold on to the job
        raise JobTimeout("job exceeded its time budget of %d s" % budget)
    budget = int(os.environ.get("OASVERIF_JOB_TIMEOUT", "900"))
    signal.signal(signal.SIGALRM, _alarm)
    signal.alarm(budget)
    try:
        from . import helpers
        from . import sx as _sx
        # whole-job path exploration: a branch on a symbolic value outside env.explore makes the job run once per decision
        # script (each pass on a fresh term store); obligations carry the decisions in their names
        scripts = [[]]
        seen_names = set()
        npass = 0
        agg = dict(functions=set(), notes=[], assumptions=set(), defined=0, roundoff=0, z3={}, atoms=0)
        while scripts:
            script = scripts.pop()
            npass += 1
            if npass > 48:
                if any(o.get("refuted") for o in res["obls"]):
                    # violations found on the passes made so far stand; the unexplored rest is noted, not an error
                    agg["notes"].append("whole-job path exploration stopped after 48 passes (violations already found)")
                    break
                raise RuntimeError("more than 48 whole-job paths")
            S.reset()
            helpers.deactivate()
            _sx.SYMBOLIC_PI[0] = True
            del spshim.SOLVES[:]
            S.PATH.whole = True
            S.PATH.outer_script = list(script)
            env = core.Env("sym", seed=seed, ranges=jb.ranges)
            try:
                jb.fn(env, **kw)
            except (KeyboardInterrupt, MemoryError):
                raise
            except Exception as e:
                # obligations already refuted before the contract broke down are reported all the same
                if any(o.refuted for o in env.obls):
                    try:
                        S.PATH.unexplored[:] = []
                        _finish_pass(env, jb, kw, seed, want_props, res, agg, seen_names, S, core, last=True)
                    except Exception:
                        pass
                if isinstance(e, S.OutsideFragment):
                    raise
                # an exception raised inside the repository's code: a violation only if the same contract, run natively on
                # admissible inputs, makes the real code raise the same kind of exception (otherwise a limit of the engine)
                obl = _repo_exception(e, jb, kw, seed, core, _sx)
                if obl is None:
                    raise
                res["obls"].append(obl)
                seen_names.add(obl["name"])
            outer = list(S.PATH.outer_taken)
            for i in range(len(script), len(outer)):
                scripts.append([t[2] for t in outer[:i]] + [True])
            _finish_pass(env, jb, kw, seed, want_props, res, agg, seen_names, S, core, last=not scripts)
        res["functions"] = sorted(agg["functions"])
        res["notes"] = agg["notes"] + (["whole-job path exploration: %d passes" % npass] if npass > 1 else [])
        res["assumptions"] = sorted(agg["assumptions"])
        res["defined"] = agg["defined"]
        res["roundoff"] = agg["roundoff"]
        res["z3"] = agg["z3"]
        res["atoms"] = agg["atoms"]
        res["iv_boxes"] = agg.get("iv_boxes", 0)
    except JobTimeout as e:
        res["error"] = "TimeoutError: %s" % e
        res["trace"] = traceback.format_exc()[-3000:]
    except Exception as e:
        res["error"] = "%s: %s" % (type(e).__name__, e)
        res["trace"] = traceback.format_exc()[-3000:]
    finally:
        signal.alarm(0)
    res["secs"] = round(time.time() - t0, 3)
    if os.environ.get("OASVERIF_PROGRESS"):
        sys.stderr.write("  done %-70s %7.1fs %s\n" % (label, res["secs"], res["error"] or ""))
    return res


def select(prop, tier):
    out = []
    for name, jb in JOBS.items():
        if prop not in jb.props:
            continue
        if tier == "quick" and jb.tier != "quick":
            continue
        for ci, cfg in enumerate(jb.cfgs):
            if tier == "quick" and cfg.get("_tier") == "thorough":
                continue
            out.append((name, ci, jb.cost * cfg.get("_cost", 1.0)))
    out.sort(key=lambda t: -t[2])
    return [(n, c) for n, c, _ in out]


def _error_result(arg, msg):
    jobname, ci, seed, want_props = arg
    cfg = JOBS[jobname].cfgs[ci]
    kw = {k: v for k, v in cfg.items() if not k.startswith("_")}
    return dict(job="%s[%s]" % (jobname, cfg_label(cfg)), jobname=jobname, cfg=kw, obls=[], error=msg, secs=0.0,
                functions=[], notes=[], defined=0, crosscheck=None, trace="")


def _worker_main(task_r, res_w):
    import resource
    while True:
        try:
            a = task_r.recv()
        except EOFError:
            return
        if a is None:
            return
        res = run_one(a)
        res["maxrss_mb"] = resource.getrusage(resource.RUSAGE_SELF).ru_maxrss // 1024
        res_w.send(res)


class _Worker:
    def __init__(self, ctx):
        self.task_r, self.task_w = ctx.Pipe(duplex=False)
        self.res_r, res_w = ctx.Pipe(duplex=False)
        self.proc = ctx.Process(target=_worker_main, args=(self.task_r, res_w), daemon=True)
        self.proc.start()
        self.task_r.close()
        res_w.close()
        self.arg = None
        self.ntasks = 0

    def rss_mb(self):
        try:
            return int(open("/proc/%d/statm" % self.proc.pid).read().split()[1]) * 4096 // (1 << 20)
        except Exception:
            return 0

    def retire(self):
        try:
            self.task_w.send(None)
        except Exception:
            pass
        self.proc.join(5)
        if self.proc.is_alive():
            self.proc.kill()
        self.task_w.close()
        self.res_r.close()


def _mem_available_mb():
    try:
        for line in open("/proc/meminfo"):
            if line.startswith("MemAvailable:"):
                return int(line.split()[1]) // 1024
    except Exception:
        pass
    return 1 << 30


def run_jobs(tasks, seed, props, procs=None):
    """every job runs in a forked worker; a worker that dies (or is killed here because the job outgrew its memory budget: a
    blow-up of the term store, typically on changed code) costs its one job, reported as a checker problem, never a hang"""
    from multiprocessing import connection as mpc
    procs = procs or int(os.environ.get("OASVERIF_PROCS", "16"))
    args = [(n, c, seed, props) for n, c in tasks]
    if procs <= 1 or len(args) <= 1:
        return [run_one(a) for a in args]
    ctx = mp.get_context("fork")
    cap_mb = int(float(os.environ.get("OASVERIF_JOB_MEM_GB", "8")) * 1024)
    pending = args[::-1]
    workers = []
    results = []
    killed = {}
    try:
        while pending or any(w.arg is not None for w in workers):
            for w in workers:
                if w.arg is None and pending:
                    w.arg = pending.pop()
                    w.task_w.send(w.arg)
            while pending and len(workers) < procs:
                w = _Worker(ctx)
                w.arg = pending.pop()
                w.task_w.send(w.arg)
                workers.append(w)
            busy = [w for w in workers if w.arg is not None]
            ready = mpc.wait([w.res_r for w in busy], timeout=1.0)
            for w in busy:
                if w.res_r not in ready:
                    continue
                try:
                    res = w.res_r.recv()
                except (EOFError, OSError):
                    w.proc.join(5)
                    why = killed.pop(w.proc.pid, None) or "worker process died (exit code %s; killed by the system, " \
                                                          "most likely out of memory)" % w.proc.exitcode
                    res = _error_result(w.arg, "WorkerDied: " + why)
                    if os.environ.get("OASVERIF_PROGRESS"):
                        sys.stderr.write("  done %-70s %s\n" % (res["job"], res["error"]))
                    workers.remove(w)
                    w.task_w.close()
                    w.res_r.close()
                    results.append(res)
                    continue
                results.append(res)
                w.arg = None
                w.ntasks += 1
                if w.ntasks >= 8 or res.get("maxrss_mb", 0) > 2048:
                    workers.remove(w)
                    w.retire()
            # memory budget per job, and a guard for the machine as a whole
            busy = [w for w in workers if w.arg is not None and w.proc.pid not in killed]
            if busy:
                sizes = [(w.rss_mb(), w) for w in busy]
                for rss, w in sizes:
                    if rss > cap_mb:
                        killed[w.proc.pid] = "job exceeded its memory budget (%d MB resident > %d MB)" % (rss, cap_mb)
                        w.proc.kill()
                if _mem_available_mb() < 6144:
                    rss, w = max(sizes, key=lambda t: t[0])
                    if w.proc.pid not in killed and rss > 1024:
                        killed[w.proc.pid] = "machine low on memory; the largest job (%d MB resident) was stopped" % rss
                        w.proc.kill()
    finally:
        for w in workers:
            try:
                if w.arg is not None:
                    w.proc.kill()
                w.retire()
            except Exception:
                pass
    return results
