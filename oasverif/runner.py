"""Job registry, parallel execution, native replay of refuted obligations, evidence, exit codes.

Exit codes of a check: 0 every obligation discharged (known findings printed); 1 a violation not listed in
KNOWN_FINDINGS.json; 2 undecided; 3 checker problem (OutsideFragment, vacuity, cross-check mismatch).  2 and 3 print no
VIOLATION line.
"""
import fnmatch
import importlib
import json
import multiprocessing as mp
import os
import sys
import time
import traceback

HERE = os.path.dirname(os.path.dirname(os.path.abspath(__file__)))
JOBS = {}
PROPS = ["C%02d" % i for i in range(1, 21)]
CONTRACT_MODULES = []


class Job:
    def __init__(self, name, props, fn, cfgs, tier, ranges, cost):
        self.name = name
        self.props = props
        self.fn = fn
        self.cfgs = cfgs
        self.tier = tier
        self.ranges = ranges
        self.cost = cost


def job(name, props, cfgs=None, tier="quick", ranges=(), cost=1.0):
    """register a contract: fn(env, **cfg) is executed once per configuration in cfgs.
    cfgs: list of dicts; a cfg may carry '_tier': 'thorough' to be skipped in the quick tier."""
    def deco(fn):
        JOBS[name] = Job(name, tuple(props), fn, cfgs or [{}], tier, tuple(ranges), cost)
        return fn
    return deco


def load_contracts():
    d = os.path.join(HERE, "oasverif", "contracts")
    for f in sorted(os.listdir(d)):
        if f.endswith(".py") and not f.startswith("_"):
            importlib.import_module("oasverif.contracts." + f[:-3])


def cfg_label(cfg):
    return ",".join("%s=%s" % (k, v) for k, v in cfg.items() if not k.startswith("_"))


def run_one(args):
    """worker: one (job, configuration)"""
    jobname, ci, seed, want_props = args
    from . import core, term as S, spshim
    t0 = time.time()
    jb = JOBS[jobname]
    cfg = jb.cfgs[ci]
    label = "%s[%s]" % (jobname, cfg_label(cfg))
    kw = {k: v for k, v in cfg.items() if not k.startswith("_")}
    res = dict(job=label, jobname=jobname, cfg=kw, obls=[], error=None, secs=0.0, functions=[], notes=[],
               defined=0, crosscheck=None)
    import signal

    def _alarm(sig, frm):
        raise TimeoutError("job exceeded its time budget of %d s" % budget)
    budget = int(os.environ.get("OASVERIF_JOB_TIMEOUT", "900"))
    signal.signal(signal.SIGALRM, _alarm)
    signal.alarm(budget)
    try:
        S.reset()
        from . import helpers
        helpers.deactivate()
        from . import sx as _sx
        _sx.SYMBOLIC_PI[0] = True
        del spshim.SOLVES[:]
        env = core.Env("sym", seed=seed, ranges=jb.ranges)
        jb.fn(env, **kw)
        res["functions"] = sorted(env.functions)
        res["notes"] = env.notes
        res["assumptions"] = sorted(env.assumptions)
        res["defined"] = len(S.DEFINED)
        res["roundoff"] = env.roundoff
        res["z3"] = env.z3_stats
        if env.z3_disagreements:
            raise RuntimeError("back-end disagreement: z3 finds a point where a discharged identity fails: %s" % env.z3_disagreements[:3])
        if S.TINY_SEEN:
            res["notes"] = res["notes"] + ["float constants below 1e-40 treated as 0: %s" % sorted(set(S.TINY_SEEN))]
        res["atoms"] = len(S.A.names)
        if S.PATH.unexplored:
            # a branch on a symbolic value outside env.explore: only one side was executed, nothing was proved for the other
            raise RuntimeError("branch on a symbolic value outside path exploration (%d), e.g. %s" % (
                len(S.PATH.unexplored), repr(S.PATH.unexplored[0])[:200]))
        # native replay of refuted obligations against the real code
        for o in env.obls:
            if want_props and not (set(o.prop.split(",")) & set(want_props)):
                continue
            for r in o.refuted[:2]:
                if r.get("entry", 0) is None and "reason" in r and "witness" not in r:
                    continue
                try:
                    env2 = core.Env("native", witness=r.get("witness") or {}, seed=seed, ranges=jb.ranges)
                    jb.fn(env2, **kw)
                    num = env2.numeric.get(o.name.split(' @path(')[0])
                    if num is None:
                        # a lemma of the symbolic proof has no native counterpart: the failing input is confirmed when any
                        # native clause of the same contract fails at the witness
                        r["native"] = "obligation not reached natively"
                        import numpy as _np
                        for nm2, (d2, s2, L2, R2) in env2.numeric.items():
                            ex = _np.asarray(d2, dtype=float) - core.NATIVE_TOL * (1.0 + _np.asarray(s2, dtype=float))
                            if ex.size and float(_np.max(ex)) > 0:
                                r["native"] = "confirmed by the native clause: %s" % nm2
                                r["native_diff"] = float(_np.max(_np.asarray(d2, dtype=float)))
                                r["confirmed"] = True
                                break
                        continue
                    diff, sc, L, R = num
                    idx = tuple(r["entry"]) if r.get("entry") is not None else ()
                    try:
                        dv, sv, lv, rv = float(diff[idx]), float(sc[idx]), float(L[idx]), float(R[idx])
                    except (IndexError, TypeError):
                        # the native clause has another layout than the symbolic one: the entry that fails most clearly
                        import numpy as _np
                        ex = _np.asarray(diff, dtype=float) - core.NATIVE_TOL * (1.0 + _np.asarray(sc, dtype=float))
                        k = _np.unravel_index(_np.argmax(ex), ex.shape) if ex.shape else ()
                        dv, sv, lv, rv = float(_np.asarray(diff)[k]), float(_np.asarray(sc)[k]), float("nan"), float("nan")
                    r["native_lhs"] = lv
                    r["native_rhs"] = rv
                    r["native_diff"] = dv
                    r["confirmed"] = bool(dv > core.NATIVE_TOL * (1.0 + sv))
                except Exception as e:           # replay problems never create or hide a violation
                    r["native"] = "replay failed: %s: %s" % (type(e).__name__, e)
            res["obls"].append(o.asdict())
        # shim / engine cross-check at a random admissible point
        try:
            res["crosscheck"] = core.crosscheck(env, jb, kw, seed)
        except Exception as e:
            res["crosscheck"] = dict(ok=False, error="%s: %s" % (type(e).__name__, e))
    except Exception as e:
        res["error"] = "%s: %s" % (type(e).__name__, e)
        res["trace"] = traceback.format_exc()[-3000:]
    finally:
        signal.alarm(0)
    res["secs"] = round(time.time() - t0, 3)
    if os.environ.get("OASVERIF_PROGRESS"):
        sys.stderr.write("  done %-70s %7.1fs %s\n" % (label, res["secs"], res["error"] or ""))
    return res


def select(prop, tier):
    out = []
    for name, jb in JOBS.items():
        if prop not in jb.props:
            continue
        if tier == "quick" and jb.tier != "quick":
            continue
        for ci, cfg in enumerate(jb.cfgs):
            if tier == "quick" and cfg.get("_tier") == "thorough":
                continue
            out.append((name, ci, jb.cost * cfg.get("_cost", 1.0)))
    out.sort(key=lambda t: -t[2])
    return [(n, c) for n, c, _ in out]


def run_jobs(tasks, seed, props, procs=None):
    procs = procs or int(os.environ.get("OASVERIF_PROCS", "16"))
    args = [(n, c, seed, props) for n, c in tasks]
    if procs <= 1 or len(args) <= 1:
        return [run_one(a) for a in args]
    ctx = mp.get_context("fork")
    with ctx.Pool(min(procs, len(args)), maxtasksperchild=8) as pool:
        return list(pool.imap_unordered(run_one, args, chunksize=1))
